(* Bridge between the two vocabularies used for "what a transaction sees below an overlay node":

   (A) EngineModifyFacts: relational, height-indexed [PageView] / [NodeView], [wf_page] / [wf_node];
   (B) EngineSpillFacts / EngineMergeFacts / EngineAbs: functional [page_ents] / [view_leaves] and the
       range-indexed well-formedness [swf] of a node that is about to be spilled.

   1. [PageView_page_ents], [page_ents_PageView] (converse, for the fuelled reading [pages_present])
   2. [NodeView_view_leaves]
   3. [in_subtree] / [subtree_pages], [PageView_stable]
   4. [spill_ready] (what (B) needs and (A) does not give) and the bridge [wf_node_swf] / [wf_node_swf_root];
      [seps_range_needed]: the separator-range hypothesis of [spill_ready] does not follow from [wf_node]
   5. [spill_root_view], [spill_root_view_committed]: [spill_root] in vocabulary (A)
   6. Non-vacuity examples.

   Everything is closed under the global context (see the [Print Assumptions] at the end). *)
From Coq Require Import List NArith Bool Arith Lia ZifyN ZifyNat ZifyBool.
From Coq.Strings Require Import Byte.
From Jamm Require Spec.
From Jamm Require Import Bytes Tree SearchFacts Engine EngineAbs EngineFacts EngineMergeFacts.
From Jamm Require Import EngineSpillFacts EngineModifyFacts.
Import ListNotations.
Import Coq.Strings.String.StringSyntax. Delimit Scope string_scope with string.
Local Open Scope list_scope. Local Open Scope nat_scope.
Arguments N.add : simpl never. Arguments N.sub : simpl never. Arguments N.mul : simpl never.
Arguments N.div : simpl never. Arguments N.ltb : simpl never. Arguments N.leb : simpl never.
Arguments N.eqb : simpl never.

(* both developments define an [in_range] (and a [seps_ok] exists in SearchFacts): always qualified here *)
Notation m_in_range := EngineModifyFacts.in_range.
Notation s_in_range := EngineSpillFacts.in_range.
Notation m_seps_ok := EngineModifyFacts.seps_ok.

(* ====================================================================== *)
(** * 0. Lists *)

Lemma flat_map_Forall2 {A B} (g : A -> list B) : forall la lb,
  Forall2 (fun a b => g a = b) la lb -> flat_map g la = concat lb.
Proof. induction 1 as [|a b la lb E _ IH]; cbn [flat_map concat]; [reflexivity|]. now rewrite E, IH. Qed.

Lemma Forall2_flat_map {A B} (g : A -> list B) (R : A -> list B -> Prop) : forall la,
  (forall a, In a la -> R a (g a)) -> Forall2 R la (map g la).
Proof.
  induction la as [|a la IH]; intros H; cbn [map]; constructor.
  - apply H. now left.
  - apply IH. intros a' Ha. apply H. now right.
Qed.

Lemma page_ents_leaves : forall fuel d p, page_ents fuel d p = page_leaves fuel d p.
Proof.
  induction fuel as [|f IH]; intros d p; [reflexivity|]. cbn [page_ents page_leaves].
  destruct (dget d p) as [a|]; [|reflexivity]. destruct (ap_body a) as [l|es]; [reflexivity|].
  apply flat_map_ext. intros e. apply IH.
Qed.

(* ====================================================================== *)
(** * 1. [PageView] is the graph of [page_ents], for enough fuel *)

Theorem PageView_page_ents : forall d h p l, PageView d h p l -> forall F, h <= F -> page_ents F d p = l.
Proof.
  intros d. induction h as [|h IH]; intros p l H F HF; [inversion H|].
  destruct F as [|F]; [lia|].
  inversion H as [? ? a l0 Hg Hb | ? ? a es ls Hg Hb HFa]; subst.
  - eapply page_ents_leaf; eauto.
  - rewrite (page_ents_branch _ _ _ _ _ Hg Hb). apply flat_map_Forall2.
    eapply EngineModifyFacts.Forall2_impl; [|exact HFa]. cbn beta. intros e y Hy. apply (IH _ _ Hy). lia.
Qed.

Corollary PageView_page_leaves : forall d h p l, PageView d h p l -> forall F, h <= F -> page_leaves F d p = l.
Proof. intros d h p l H F HF. rewrite <- page_ents_leaves. eapply PageView_page_ents; eauto. Qed.

(* The converse. [page_ents] answers [] for a missing page and when the fuel runs out, so
   [page_ents F d p = l] alone does not give a view (see [page_ents_no_view] below); what is needed is that
   the fuelled reading never falls off the disk nor runs out of fuel. [wf_page] is one way to know this, but
   [wf_page] by itself carries no height, so the fuel must be related to the tree separately: *)
Fixpoint pages_present (fuel : nat) (d : disk) (p : N) : Prop :=
  match fuel with
  | O => False
  | S f => match dget d p with
           | None => False
           | Some a => match ap_body a with
                       | Leaves _ => True
                       | Branches es => forall e, In e es -> pages_present f d (snd e) end end
  end.

Theorem page_ents_PageView : forall F d p, pages_present F d p -> PageView d F p (page_ents F d p).
Proof.
  induction F as [|F IH]; intros d p H; [destruct H|]. cbn [pages_present] in H. cbn [page_ents].
  destruct (dget d p) as [a|] eqn:Hg; [|destruct H]. destruct (ap_body a) as [l|es] eqn:Hb.
  - eapply PV_leaf; eauto.
  - rewrite flat_map_concat_map. eapply PV_branch; eauto.
    apply Forall2_flat_map. intros e He. apply IH, H, He.
Qed.

Lemma PageView_present : forall d h p l, PageView d h p l -> pages_present h d p.
Proof.
  intros d. induction h as [|h IH]; intros p l H; [inversion H|]. cbn [pages_present].
  inversion H as [? ? a l0 Hg Hb | ? ? a es ls Hg Hb HFa]; subst; rewrite Hg, Hb; [exact I|].
  intros e He. apply In_nth_error in He. destruct He as [j Hj].
  destruct (Forall2_nth_error_l _ _ _ _ _ HFa Hj) as (y & _ & Hy). eapply IH; eauto.
Qed.

(* so: a view of height h exists iff the reading with fuel h stays on the disk, and then it is [page_ents] *)
Corollary PageView_iff : forall d h p l,
  PageView d h p l <-> pages_present h d p /\ page_ents h d p = l.
Proof.
  intros d h p l. split.
  - intros H. split; [eapply PageView_present; eauto | eapply PageView_page_ents; eauto].
  - intros [H <-]. now apply page_ents_PageView.
Qed.

(* a well-formed page has SOME view (the derivation of [wf_page] is finite), and every fuel that covers it
   reads that view *)
Theorem wf_page_views : forall d p, wf_page d p -> exists h l, PageView d h p l.
Proof.
  intros d. fix IH 2. intros p H. destruct H as [p a l Hg Hb Hs | p a es Hg Hb Hs HF Hr].
  - exists 1, l. eapply PV_leaf; eauto.
  - assert (Hch : exists h ls, Forall2 (fun e l => PageView d h (snd e) l) es ls).
    { clear - HF IH. revert es HF. fix IHF 2. intros es HF. destruct HF as [|e es He HF].
      - exists 0, []. constructor.
      - destruct (IH _ He) as (h1 & l1 & H1). destruct (IHF _ HF) as (h2 & ls & H2).
        exists (Nat.max h1 h2), (l1 :: ls). constructor.
        + apply (PageView_mono _ _ _ _ H1). lia.
        + eapply EngineModifyFacts.Forall2_impl; [|exact H2]. cbn beta. intros e' y Hy.
          apply (PageView_mono _ _ _ _ Hy). lia. }
    destruct Hch as (h & ls & Hch). exists (S h), (concat ls). eapply PV_branch; eauto.
Qed.

Corollary wf_page_page_ents : forall d p, wf_page d p ->
  exists h, forall F, h <= F -> PageView d F p (page_ents F d p).
Proof.
  intros d p H. destruct (wf_page_views d p H) as (h & l & Hv). exists h. intros F HF.
  rewrite (PageView_page_ents _ _ _ _ Hv F HF). apply (PageView_mono _ _ _ _ Hv F HF).
Qed.

(* without the presence condition the converse fails: [page_ents] of a missing page is [] *)
Example page_ents_no_view : page_ents 5 [] 7%N = [] /\ forall h l, ~ PageView [] h 7%N l.
Proof. split; [reflexivity|]. intros h l H. inversion H as [? ? a ? Hg|? ? a ? ? Hg]; discriminate. Qed.

(* ====================================================================== *)
(** * 2. [NodeView] is the graph of [view_leaves], for enough fuel *)

(* a kid is resolved in [view_leaves] as in [NodeView]: the first kid with that page ([find_kid]) *)
Lemma ChildView_child_view : forall d h ks q l fuel,
  (forall kd l', find_kid q ks = Some kd -> NodeView d h kd l' -> view_leaves fuel d kd = l') ->
  h <= fuel -> ChildView d h ks q l -> child_view fuel d ks q = l.
Proof.
  intros d h ks q l fuel IH Hle H. unfold ChildView in H. unfold child_view.
  destruct (find_kid q ks) as [kd|].
  - now apply IH.
  - eapply PageView_page_leaves; eauto.
Qed.

Theorem NodeView_view_leaves : forall d h n l, NodeView d h n l ->
  forall fuel, h <= fuel -> view_leaves fuel d n = l.
Proof.
  intros d. induction h as [|h IH]; intros n l H fuel Hle; [inversion H|].
  destruct n as [p np og sq [l0|es] ks].
  - apply NodeView_leaf_inv in H. destruct H as [-> _]. reflexivity.
  - apply NodeView_branch_inv in H. destruct H as (h0 & ls & E & -> & HF). inversion E; subst h0.
    rewrite view_leaves_eq. cbn [n_data n_kids]. apply flat_map_Forall2.
    eapply EngineModifyFacts.Forall2_impl; [|exact HF]. cbn beta. intros e y Hy.
    eapply ChildView_child_view; [|shelve|exact Hy].
    intros kd l' _ Hv. apply (IH _ _ Hv). lia.
    Unshelve. lia.
Qed.

Corollary Views_view_leaves : forall d n l, Views d n l -> exists h, forall fuel, h <= fuel -> view_leaves fuel d n = l.
Proof. intros d n l [h H]. exists h. intros fuel Hle. eapply NodeView_view_leaves; eauto. Qed.

(* ====================================================================== *)
(** * 3. The pages below a page; a viewed subtree inside [keep] is [stable] *)

(* [in_subtree d q x]: page x is q or lies below q on disk d *)
Inductive in_subtree (d : disk) : N -> N -> Prop :=
| ist_self : forall q, in_subtree d q q
| ist_kid : forall q a es e x,
    dget d q = Some a -> ap_body a = Branches es -> In e es -> in_subtree d (snd e) x -> in_subtree d q x.

(* the same as a fuelled function (pre-order) *)
Fixpoint subtree_pages (fuel : nat) (d : disk) (q : N) : list N :=
  match fuel with
  | O => []
  | S f => q :: match dget d q with
                | None => []
                | Some a => match ap_body a with
                            | Leaves _ => []
                            | Branches es => flat_map (fun e => subtree_pages f d (snd e)) es end end
  end.

Lemma subtree_pages_sound : forall fuel d q x, In x (subtree_pages fuel d q) -> in_subtree d q x.
Proof.
  induction fuel as [|f IH]; intros d q x H; [destruct H|]. cbn [subtree_pages] in H.
  destruct H as [<-|H]; [apply ist_self|].
  destruct (dget d q) as [a|] eqn:Hg; [|destruct H]. destruct (ap_body a) as [l|es] eqn:Hb; [destruct H|].
  apply in_flat_map in H. destruct H as (e & He & Hx). eapply ist_kid; eauto.
Qed.

(* complete when the fuel covers the height (a view of that height exists) *)
Lemma subtree_pages_complete : forall d h q l, PageView d h q l ->
  forall x, in_subtree d q x -> In x (subtree_pages h d q).
Proof.
  intros d. induction h as [|h IH]; intros q l H x Hx; [inversion H|]. cbn [subtree_pages].
  destruct Hx as [q|q a es e x Hg Hb He Hx]; [now left|]. right.
  inversion H as [? ? a' l0 Hg' Hb' | ? ? a' es' ls Hg' Hb' HFa]; subst;
    rewrite Hg in Hg'; inversion Hg'; subst a'; rewrite Hb in Hb'; inversion Hb'; subst es'.
  rewrite Hg, Hb. apply in_flat_map. exists e. split; [exact He|].
  destruct (In_nth_error _ _ He) as [j Hj].
  destruct (Forall2_nth_error_l _ _ _ _ _ HFa Hj) as (y & _ & Hy). eapply IH; eauto.
Qed.

(* a subtree that has a view of height h and whose pages are all in [keep] is [stable] for every fuel >= h;
   [wf_page] is not needed for this *)
Theorem PageView_stable : forall d keep h q l, PageView d h q l ->
  (forall x, in_subtree d q x -> In x keep) ->
  forall fuel, h <= fuel -> stable fuel d keep q.
Proof.
  intros d keep. induction h as [|h IH]; intros q l H Hk fuel Hle; [inversion H|].
  destruct fuel as [|fuel]; [lia|]. cbn [stable]. split; [apply Hk, ist_self|].
  inversion H as [? ? a l0 Hg Hb | ? ? a es ls Hg Hb HFa]; subst; rewrite Hg, Hb; [exact I|].
  intros e He. destruct (In_nth_error _ _ He) as [j Hj].
  destruct (Forall2_nth_error_l _ _ _ _ _ HFa Hj) as (y & _ & Hy).
  apply (IH _ _ Hy); [|lia]. intros x Hx. apply Hk. eapply ist_kid; eauto.
Qed.

(* the form asked for: with [wf_page] (unused) and the pages given by the fuelled function *)
Corollary wf_page_stable : forall d keep h q l fuel, wf_page d q -> PageView d h q l ->
  (forall x, In x (subtree_pages h d q) -> In x keep) -> h <= fuel -> stable fuel d keep q.
Proof.
  intros d keep h q l fuel _ Hv Hk Hle. apply (PageView_stable d keep h q l Hv); [|exact Hle].
  intros x Hx. apply Hk. eapply subtree_pages_complete; eauto.
Qed.

(* ====================================================================== *)
(** * 4. From [wf_node] + [NodeView] to [swf] *)

(* What [swf] asks and [wf_node] + [NodeView] do not give, recursively over the materialised part of the
   overlay. Like [swf] it is indexed by the key range [lo, hi) the node is responsible for: the SEPARATORS of a
   materialised branch must lie in the range ([wf_node] relates separators only to the keys of the children
   right of child 0, so this does not follow -- [seps_range_needed] below). At the root the range is
   (None, None) and the condition is void.
   - every materialised leaf is non-empty and has no kids; every branch is non-empty;
   - every kid is named by an entry of its parent and carries that entry's key as [n_orig]
     (the entry is unique because [wf_node] makes the child pages distinct);
   - the kids' pages are pairwise distinct;
   - every page below an un-materialised child is in [keep]. *)
Inductive spill_ready (d : disk) (keep : list N) : option bytes -> option bytes -> node -> Prop :=
| sr_leaf lo hi pg npg o sq l :
    l <> [] -> spill_ready d keep lo hi (Node pg npg o sq (Leaves l) [])
| sr_branch lo hi pg npg o sq es kids :
    es <> [] ->
    (forall k, In k (map fst es) -> s_in_range lo hi k) ->
    NoDup (map n_page kids) ->
    (forall kd, In kd kids -> exists k, n_orig kd = Some k /\ In (k, n_page kd) es) ->
    (forall l h e kd, In (l, h, e) (chb lo hi es) -> find_kid (snd e) kids = Some kd ->
       spill_ready d keep l h kd) ->
    (forall e x, In e es -> find_kid (snd e) kids = None -> in_subtree d (snd e) x -> In x keep) ->
    spill_ready d keep lo hi (Node pg npg o sq (Branches es) kids).

(* the bounds [chb] gives entry j: child 0 inherits the lower bound, child j > 0 starts at its separator;
   every child ends at the next separator, the last one at the upper bound *)
Lemma chb_nth : forall es lo hi l h e, In (l, h, e) (chb lo hi es) ->
  exists j, nth_error es j = Some e /\
    l = match j with O => lo | S _ => Some (fst e) end /\
    h = match nth_error es (S j) with Some e' => Some (fst e') | None => hi end.
Proof.
  induction es as [|e0 es IH]; intros lo hi l h e H; [destruct H|]. cbn [chb] in H. destruct H as [H|H].
  - inversion H; subst. exists 0. split; [reflexivity|]. split; [reflexivity|].
    cbn [nth_error]. destruct es; reflexivity.
  - destruct (IH _ _ _ _ _ H) as (j & Hj & Hl & Hh). exists (S j). split; [exact Hj|]. split; [|exact Hh].
    destruct j as [|j]; [|exact Hl]. subst l. destruct es as [|e1 es]; [discriminate|].
    cbn [nth_error] in Hj. inversion Hj. reflexivity.
Qed.

Lemma in_concat_nth_intro : forall {A} (ls : list (list A)) j l x,
  nth_error ls j = Some l -> In x l -> In x (concat ls).
Proof. intros A ls j l x Hj Hx. apply in_concat. exists l. split; [eapply nth_error_In; eauto | exact Hx]. Qed.

(* the keys of child j of a well-formed branch lie in the [chb] range of entry j, provided the keys of the
   whole view lie in the range of the node: child 0 gets its lower bound, and the last child its upper bound,
   from the node's own range, every other bound is a separator ([in_range] of (A)) *)
Lemma child_range : forall (es : list (bytes * N)) (ls : list (list leafent)) lo hi j e lj,
  nth_error es j = Some e -> nth_error ls j = Some lj ->
  m_in_range (map fst es) j lj ->
  (forall x, In x (concat ls) -> s_in_range lo hi (lkey x)) ->
  forall x, In x lj ->
    s_in_range (match j with O => lo | S _ => Some (fst e) end)
               (match nth_error es (S j) with Some e' => Some (fst e') | None => hi end) (lkey x).
Proof.
  intros es ls lo hi j e lj He Hl [Hdn Hup] Hout x Hx.
  pose proof (Hout x (in_concat_nth_intro _ _ _ _ Hl Hx)) as [Olo Ohi]. split.
  - destruct j as [|j]; [exact Olo|]. specialize (Hdn ltac:(lia)). rewrite Forall_forall in Hdn.
    specialize (Hdn x Hx). rewrite (nth_error_nth_map fst _ _ _ He) in Hdn. exact Hdn.
  - destruct (nth_error es (S j)) as [e'|] eqn:He'; [|exact Ohi].
    assert (Hlen : S j < length (map fst es)).
    { rewrite map_length. apply nth_error_Some. congruence. }
    specialize (Hup Hlen). rewrite Forall_forall in Hup. specialize (Hup x Hx).
    rewrite (nth_error_nth_map fst _ _ _ He') in Hup. exact Hup.
Qed.

Theorem wf_node_swf : forall d keep h n l lo hi fuel,
  wf_node d n -> NodeView d h n l -> spill_ready d keep lo hi n ->
  (forall x, In x l -> s_in_range lo hi (lkey x)) -> h <= fuel ->
  swf fuel d keep lo hi n.
Proof.
  intros d keep. induction h as [|h IH]; intros n l lo hi fuel Hw Hv Hr Hrange Hle; [inversion Hv|].
  destruct n as [p np og sq [l0|es] ks].
  - apply NodeView_leaf_inv in Hv. destruct Hv as [-> _].
    inversion Hr as [? ? ? ? ? ? ? Hne|]; subst. inversion Hw as [? ? ? ? ? ? Hs|]; subst.
    apply swf_leaf. split; [|split; [exact Hs|]].
    + destruct l0; [congruence|discriminate].
    + intros k Hk. apply in_map_iff in Hk. destruct Hk as (x & <- & Hx). apply Hrange, Hx.
  - apply NodeView_branch_inv in Hv. destruct Hv as (h0 & ls & E & -> & HF). inversion E; subst h0.
    apply wf_node_branch_inv in Hw. destruct Hw as (Hok & Hch & Hin).
    inversion Hr as [|? ? ? ? ? ? ? ? Hne Hseps Hndk Horig Hkids Hkeep]; subst.
    destruct Hok as (_ & Hsorted & Hnd).
    apply swf_branch.
    + split; [destruct es; [congruence|discriminate]|]. split; [exact Hsorted|exact Hseps].
    + exact Hnd.
    + exact Hndk.
    + exact Horig.
    + intros b1 b2 e kd Hb Hfk. destruct (chb_nth _ _ _ _ _ _ Hb) as (j & He & -> & ->).
      destruct (Forall2_nth_error_l _ _ _ _ _ HF He) as (lj & Hlj & Hcv).
      rewrite Forall_forall in Hch. pose proof (Hch e (nth_error_In _ _ He)) as Hcw.
      unfold ChildView in Hcv. unfold ChildWf in Hcw. rewrite Hfk in Hcv, Hcw.
      apply (IH kd lj); [exact Hcw|exact Hcv| | |lia].
      * apply (Hkids _ _ e kd Hb Hfk).
      * apply (child_range es ls lo hi j e lj He Hlj); [|exact Hrange].
        apply (Hin j e lj He). exists h. unfold ChildView. rewrite Hfk. exact Hcv.
    + intros e He Hfk. destruct (In_nth_error _ _ He) as [j Hj].
      destruct (Forall2_nth_error_l _ _ _ _ _ HF Hj) as (lj & Hlj & Hcv).
      unfold ChildView in Hcv. rewrite Hfk in Hcv.
      apply (PageView_stable d keep h (snd e) lj Hcv); [|lia].
      intros x Hx. apply (Hkeep e x He Hfk Hx).
Qed.

(* at a bucket's root the range is unbounded *)
Corollary wf_node_swf_root : forall d keep h n l fuel,
  wf_node d n -> NodeView d h n l -> spill_ready d keep None None n -> h <= fuel ->
  swf fuel d keep None None n.
Proof.
  intros d keep h n l fuel Hw Hv Hr Hle. apply (wf_node_swf d keep h n l None None fuel Hw Hv Hr); [|exact Hle].
  intros x _. split; exact I.
Qed.

(* ====================================================================== *)
(** * 5. [spill_root] in vocabulary (A) *)

(* a root that is an empty leaf is spilled as well (an empty bucket); otherwise the root must be ready *)
Definition root_ready (d : disk) (keep : list N) (n : node) : Prop :=
  n_data n = Leaves [] \/ spill_ready d keep None None n.

Lemma root_ready_swf : forall d keep h n l, wf_node d n -> NodeView d h n l -> root_ready d keep n ->
  n_data n = Leaves [] \/ swf h d keep None None n.
Proof.
  intros d keep h n l Hw Hv [E|Hr]; [left; exact E|right].
  apply (wf_node_swf_root d keep h n l h Hw Hv Hr). lia.
Qed.

(* The root page [p] that [spill_root] returns reads, in every later write set [w'] that agrees with the
   transaction's on the pages [good] written here and does not touch [keep], exactly the entries [l] the
   transaction saw below [n]; plus the allocator facts of [spill_root_spec]. *)
Theorem spill_root_view : forall d keep live h n l f s p s',
  wf_node d n -> NodeView d h n l -> root_ready d keep n ->
  fresh_inv live s ->
  spill_root f n s = Ok (p, s') ->
  exists alloc dead good lv,
    frame live s s' alloc dead /\ (forall q, In q good -> In q alloc) /\ In p good /\ lv <= f /\
    (forall x, old_run n x -> In x dead) /\
    (forall L, (forall x, In x L -> In x live) -> old_in L n ->
       forall x, In x dead -> (In x L \/ In x alloc) /\ ~ In x good) /\
    forall w' P, wr_agree good (wr s') w' -> (forall x, In x keep -> wr_get w' x = None) ->
      forall F, lv + ndepth n + h <= F -> page_ents F (apply_wr w' P d) p = l.
Proof.
  intros d keep live h n l f s p s' Hw Hv Hr Hfi Hsp.
  pose proof (root_ready_swf d keep h n l Hw Hv Hr) as Hswf.
  destruct (spill_root_spec h d keep live f n s p s' Hfi Hswf Hsp)
    as (alloc & dead & good & lv & A1 & A2 & A3 & A4 & A5 & A6 & A7).
  exists alloc, dead, good, lv. repeat (split; [assumption|]).
  intros w' P Hag Hk F HF. rewrite (A7 w' P Hag Hk F HF).
  apply (NodeView_view_leaves d h n l Hv). lia.
Qed.

(* the same at commit time: [s''] is any later state of the same transaction (a frame over s'), its write
   set applied to the committed disk *)
Theorem spill_root_view_committed : forall d keep live h n l f s p s' s'' a2 d2,
  wf_node d n -> NodeView d h n l -> root_ready d keep n ->
  fresh_inv live s ->
  (forall x, In x keep -> In x live) -> (forall x, In x keep -> wr_get (wr s) x = None) ->
  spill_root f n s = Ok (p, s') ->
  exists alloc dead lv,
    frame live s s' alloc dead /\ In p alloc /\ ~ In p live /\ lv <= f /\
    (forall x, old_run n x -> freed_in_tx s' x = true) /\
    (frame (alloc ++ live) s' s'' a2 d2 ->
     forall P F, lv + ndepth n + h <= F -> page_ents F (apply_wr (wr s'') P d) p = l) /\
    (old_in live n -> ~ In p dead /\
       (pend_ok live s -> forall live', (forall x, In x live' -> (In x live \/ In x alloc) /\ ~ In x dead) ->
          pend_ok live' s')).
Proof.
  intros d keep live h n l f s p s' s'' a2 d2 Hw Hv Hr Hfi Hk Hk0 Hsp.
  pose proof (root_ready_swf d keep h n l Hw Hv Hr) as Hswf.
  destruct (spill_root_committed h d keep live f n s p s' s'' a2 d2 Hfi Hswf Hk Hk0 Hsp)
    as (alloc & dead & lv & A1 & A2 & A3 & A4 & A5 & A6 & A7).
  exists alloc, dead, lv. repeat (split; [assumption|]). split; [|exact A7].
  intros Hfr P F HF. rewrite (A6 Hfr P F HF). apply (NodeView_view_leaves d h n l Hv). lia.
Qed.

(* for a bucket whose root node is loaded, in the bucket vocabulary of (A) *)
Corollary spill_bucket_root_view : forall d keep live h b n l f s p s' s'' a2 d2,
  b_rootn b = Some n -> bucket_wf d b -> BucketView d h b l -> root_ready d keep n ->
  fresh_inv live s ->
  (forall x, In x keep -> In x live) -> (forall x, In x keep -> wr_get (wr s) x = None) ->
  spill_root f n s = Ok (p, s') ->
  exists alloc dead lv,
    frame live s s' alloc dead /\ In p alloc /\ ~ In p live /\ lv <= f /\
    (frame (alloc ++ live) s' s'' a2 d2 ->
     forall P F, lv + ndepth n + h <= F -> page_ents F (apply_wr (wr s'') P d) p = l).
Proof.
  intros d keep live h b n l f s p s' s'' a2 d2 Hb Hw Hv Hr Hfi Hk Hk0 Hsp.
  unfold bucket_wf in Hw. unfold BucketView in Hv. rewrite Hb in Hw, Hv.
  destruct (spill_root_view_committed d keep live h n l f s p s' s'' a2 d2 Hw Hv Hr Hfi Hk Hk0 Hsp)
    as (alloc & dead & lv & A1 & A2 & A3 & A4 & _ & A6 & _).
  exists alloc, dead, lv. repeat (split; [assumption|]). exact A6.
Qed.

(* ====================================================================== *)
(** * 6. Non-vacuity *)

(* 6a. the overlay of EngineModifyFacts section 10: root 10 over leaf 11 (on disk), leaf 12 (materialised, one
   entry deleted) and branch 13 (on disk, over leaves 14 and 15) *)
Definition ex_keep : list N := [11; 13; 14; 15]%N.

Ltac in_keep_tac Hx pv :=
  apply (subtree_pages_complete _ _ _ _ pv) in Hx; vm_compute in Hx; vm_compute; tauto.

Example ex_root_ready : spill_ready ex_disk ex_keep None None ex_root.
Proof.
  apply sr_branch.
  - discriminate.
  - intros k _. split; exact I.
  - cbn [map n_page ex_kid12]. nodup_tac.
  - intros kd [<-|[]]. exists EngineFacts.kD. split; [reflexivity|right; left; reflexivity].
  - intros b1 b2 e kd Hb Hf. cbn [chb ex_es fst] in Hb.
    destruct Hb as [Hb|[Hb|[Hb|[]]]]; inversion Hb; subst b1 b2 e; clear Hb; vm_compute in Hf; try discriminate.
    inversion Hf; subst kd. apply sr_leaf. discriminate.
  - intros e x He Hf Hx. cbn [ex_es In] in He. destruct He as [<-|[<-|[<-|[]]]]; cbn [snd] in Hf, Hx.
    + in_keep_tac Hx (ex_pv11 0).
    + vm_compute in Hf. discriminate.
    + in_keep_tac Hx ex_pv13.
Qed.

(* the bridge applied: [swf] for every fuel >= 3, and the functional view is the relational one *)
Example ex_root_swf : forall fuel, 3 <= fuel -> swf fuel ex_disk ex_keep None None ex_root.
Proof. intros fuel H. exact (wf_node_swf_root _ _ _ _ _ fuel ex_root_wf ex_root_view ex_root_ready H). Qed.

Example ex_root_leaves : forall fuel, 3 <= fuel -> view_leaves fuel ex_disk ex_root = ex_view.
Proof. intros fuel H. exact (NodeView_view_leaves _ _ _ _ ex_root_view fuel H). Qed.

Example ex_page13_ents : forall F, 2 <= F -> page_ents F ex_disk 13%N = [LBk kG 7 0].
Proof. intros F H. exact (PageView_page_ents _ _ _ _ ex_pv13 F H). Qed.

Example ex_page13_stable : forall fuel, 2 <= fuel -> stable fuel ex_disk ex_keep 13%N.
Proof.
  intros fuel H. apply (PageView_stable _ _ _ _ _ ex_pv13); [|exact H].
  intros x Hx. in_keep_tac Hx ex_pv13.
Qed.

(* part 5 applied: spilling this root in a transaction that may hand out pages from 20 on *)
Definition ex_live2 : list N := [10; 11; 12; 13; 14; 15]%N.
Example ex_st_fresh : fresh_inv ex_live2 ex_st.
Proof.
  constructor; cbn [ex_st free np psz].
  - lia.
  - lia.
  - repeat constructor.
  - repeat constructor.
  - intros x [].
  - intros x Hx. unfold ex_live2 in Hx. cbn [In] in Hx. split; [lia|intros []].
Qed.

Example ex_spill_root_view :
  match spill_root 3 ex_root ex_st with
  | Ok (p, s') => forall F, 8 <= F -> page_ents F (apply_wr (wr s') 4096 ex_disk) p = ex_view
  | _ => False end.
Proof.
  destruct (spill_root 3 ex_root ex_st) as [[p s']| |] eqn:E; try (vm_compute in E; discriminate).
  assert (Hk : forall x, In x ex_keep -> In x ex_live2) by (intros x Hx; vm_compute in Hx; vm_compute; tauto).
  assert (Hk0 : forall x, In x ex_keep -> wr_get (wr ex_st) x = None) by (intros x _; reflexivity).
  destruct (spill_root_view_committed ex_disk ex_keep ex_live2 3 ex_root ex_view 3 ex_st p s' s' [] []
              ex_root_wf ex_root_view (or_intror ex_root_ready) ex_st_fresh Hk Hk0 E)
    as (alloc & dead & lv & Hfr & _ & _ & Hlv & _ & Hfin & _).
  intros F HF. apply Hfin; [apply frame_refl, (fr_fresh _ _ _ _ _ Hfr)|].
  change (ndepth ex_root) with 2. lia.
Qed.

(* 6b. a materialised BRANCH kid, and why [spill_ready] asks for its separators to be in range.
   Root 10 = [b -> 11; d -> 12; h -> 13], pages 11 and 13 are leaves on disk, 12 is materialised as a branch
   with the single entry (k, 20) over leaf 20 = [d; e]. For EVERY k this overlay is [wf_node] and has the
   view [a; d; e; h]: (A) never compares the separator of child 0 with anything. *)
Definition kb (c : byte) : bytes := [c].
Definition bd : disk :=
  [ (11%N, {| ap_over := 0; ap_body := Leaves [LKv (kb "a") [x01]] |});
    (20%N, {| ap_over := 0; ap_body := Leaves [LKv (kb "d") [x04]; LKv (kb "e") [x05]] |});
    (13%N, {| ap_over := 0; ap_body := Leaves [LKv (kb "h") [x08]] |}) ].
Definition mk_kid (k : bytes) : node := Node 12 1 (Some (kb "d")) 2 (Branches [(k, 20%N)]) [].
Definition b_es : list (bytes * N) := [(kb "b", 11%N); (kb "d", 12%N); (kb "h", 13%N)].
Definition mk_root (k : bytes) : node := Node 10 1 (Some (kb "b")) 1 (Branches b_es) [mk_kid k].
Definition b_view : list leafent :=
  [LKv (kb "a") [x01]; LKv (kb "d") [x04]; LKv (kb "e") [x05]; LKv (kb "h") [x08]].
Definition b_keep : list N := [11; 13; 20]%N.
Definition bst : txs :=
  {| free := []; pending := []; txid := 1; np := 30; psz := 4096; wr := []; flw := None; seqc := 3 |}.

Lemma b_pv11 : forall h, PageView bd (S h) 11 [LKv (kb "a") [x01]].
Proof. intros h. eapply PV_leaf; reflexivity. Qed.
Lemma b_pv13 : forall h, PageView bd (S h) 13 [LKv (kb "h") [x08]].
Proof. intros h. eapply PV_leaf; reflexivity. Qed.
Lemma b_pv20 : forall h, PageView bd (S h) 20 [LKv (kb "d") [x04]; LKv (kb "e") [x05]].
Proof. intros h. eapply PV_leaf; reflexivity. Qed.

Lemma b_kid_view : forall k, NodeView bd 2 (mk_kid k) [LKv (kb "d") [x04]; LKv (kb "e") [x05]].
Proof.
  intros k. change [LKv (kb "d") [x04]; LKv (kb "e") [x05]] with (concat [[LKv (kb "d") [x04]; LKv (kb "e") [x05]]]).
  apply NodeView_branch_intro. repeat constructor. unfold ChildView. cbn [snd find_kid find]. exact (b_pv20 0).
Qed.

Lemma b_kid_wf : forall k, wf_node bd (mk_kid k).
Proof.
  intros k. apply wf_node_branch_intro.
  - split; [discriminate|]. split; [reflexivity|]. cbn [map snd]. nodup_tac.
  - repeat constructor. unfold ChildWf. cbn [snd find_kid find]. eapply wfp_leaf; reflexivity.
  - intros j e l Hj _. destruct j as [|j]; [|destruct j; discriminate].
    split; intros Hrng; cbn [map length] in Hrng; lia.
Qed.

Lemma b_find11 : forall k, find_kid 11%N [mk_kid k] = None. Proof. reflexivity. Qed.
Lemma b_find12 : forall k, find_kid 12%N [mk_kid k] = Some (mk_kid k). Proof. reflexivity. Qed.
Lemma b_find13 : forall k, find_kid 13%N [mk_kid k] = None. Proof. reflexivity. Qed.

Lemma b_root_view : forall k, NodeView bd 3 (mk_root k) b_view.
Proof.
  intros k.
  change b_view with (concat [[LKv (kb "a") [x01]]; [LKv (kb "d") [x04]; LKv (kb "e") [x05]]; [LKv (kb "h") [x08]]]).
  apply NodeView_branch_intro.
  apply Forall2_cons; [|apply Forall2_cons; [|apply Forall2_cons; [|apply Forall2_nil]]];
    unfold ChildView; cbn [snd].
  - rewrite b_find11. exact (b_pv11 1).
  - rewrite b_find12. apply b_kid_view.
  - rewrite b_find13. exact (b_pv13 1).
Qed.

Lemma b_root_wf : forall k, wf_node bd (mk_root k).
Proof.
  intros k. apply wf_node_branch_intro; [seps_ok_tac | |].
  - apply Forall_cons; [|apply Forall_cons; [|apply Forall_cons; [|apply Forall_nil]]];
      unfold ChildWf; cbn [snd].
    + rewrite b_find11. eapply wfp_leaf; reflexivity.
    + rewrite b_find12. apply b_kid_wf.
    + rewrite b_find13. eapply wfp_leaf; reflexivity.
  - intros j e l Hj [h Hv]. unfold ChildView in Hv.
    destruct j as [|[|[|j]]]; cbn [nth_error b_es] in Hj; try (destruct j; discriminate);
      inversion Hj; subst e; cbn [snd] in Hv.
    + rewrite b_find11 in Hv. rewrite (PageView_det _ _ _ _ Hv _ _ (b_pv11 0)). in_range_tac.
    + rewrite b_find12 in Hv. rewrite (NodeView_det _ _ _ _ Hv _ _ (b_kid_view k)). in_range_tac.
    + rewrite b_find13 in Hv. rewrite (PageView_det _ _ _ _ Hv _ _ (b_pv13 0)). in_range_tac.
Qed.

(* every clause of [spill_ready] but the separator range holds for every k: the kid is ready exactly when
   its separator is in the range it is given, the root exactly when k is in [d, h) *)
Lemma b_kid_ready : forall k lo hi, spill_ready bd b_keep lo hi (mk_kid k) <-> s_in_range lo hi k.
Proof.
  intros k lo hi. split.
  - intros H. inversion H as [|? ? ? ? ? ? ? ? Hne Hs Hnd Ho Hkids Hkp]; subst. apply Hs. left. reflexivity.
  - intros Hk. apply sr_branch.
    + discriminate.
    + intros k' [<-|[]]. exact Hk.
    + constructor.
    + intros kd [].
    + intros b1 b2 e kd _ Hf. destruct (find_kid_In _ _ _ Hf) as [[] _].
    + intros e x [<-|[]] _ Hx. cbn [snd] in Hx. in_keep_tac Hx (b_pv20 0).
Qed.

Lemma b_root_ready : forall k,
  spill_ready bd b_keep None None (mk_root k) <-> s_in_range (Some (kb "d")) (Some (kb "h")) k.
Proof.
  intros k. split.
  - intros H. inversion H as [|? ? ? ? ? ? ? ? Hne Hs Hnd Ho Hkids Hkp]; subst.
    apply b_kid_ready. apply (Hkids _ _ (kb "d", 12%N) (mk_kid k)); [|apply b_find12].
    cbn [chb b_es fst]. right. left. reflexivity.
  - intros Hk. apply sr_branch.
    + discriminate.
    + intros k' _. split; exact I.
    + cbn [map n_page mk_kid]. nodup_tac.
    + intros kd [<-|[]]. exists (kb "d"). split; [reflexivity|right; left; reflexivity].
    + intros b1 b2 e kd Hb Hf. cbn [chb b_es fst] in Hb.
      destruct Hb as [Hb|[Hb|[Hb|[]]]]; inversion Hb; subst b1 b2 e; clear Hb; cbn [snd] in Hf.
      * rewrite b_find11 in Hf. discriminate.
      * rewrite b_find12 in Hf. inversion Hf; subst kd. apply b_kid_ready, Hk.
      * rewrite b_find13 in Hf. discriminate.
    + intros e x He Hf Hx. cbn [b_es In] in He. destruct He as [<-|[<-|[<-|[]]]]; cbn [snd] in Hf, Hx.
      * in_keep_tac Hx (b_pv11 0).
      * rewrite b_find12 in Hf. discriminate.
      * in_keep_tac Hx (b_pv13 0).
Qed.

(* k = "d": ready; the bridge gives [swf] with the non-trivial range [d, h) for the kid *)
Example b_good_ready : spill_ready bd b_keep None None (mk_root (kb "d")).
Proof. apply b_root_ready. split; vm_compute; [discriminate|reflexivity]. Qed.

Example b_good_swf : forall fuel, 3 <= fuel -> swf fuel bd b_keep None None (mk_root (kb "d")).
Proof.
  intros fuel H. exact (wf_node_swf_root _ _ _ _ _ fuel (b_root_wf _) (b_root_view _) b_good_ready H).
Qed.

Definition b_live : list N := [10; 11; 12; 13; 20]%N.
Example bst_fresh : fresh_inv b_live bst.
Proof.
  constructor; cbn [bst free np psz].
  - lia.
  - lia.
  - repeat constructor.
  - repeat constructor.
  - intros x [].
  - intros x Hx. unfold b_live in Hx. cbn [In] in Hx. split; [lia|intros []].
Qed.

Example b_good_spill :
  match spill_root 3 (mk_root (kb "d")) bst with
  | Ok (p, s') =>
      (forall F, 8 <= F -> page_ents F (apply_wr (wr s') 4096 bd) p = b_view) /\
      lookup_page 3 (apply_wr (wr s') 4096 bd) p (kb "d") = Ok (Some (LKv (kb "d") [x04])) /\
      lookup_page 3 (apply_wr (wr s') 4096 bd) p (kb "h") = Ok (Some (LKv (kb "h") [x08]))
  | _ => False end.
Proof.
  destruct (spill_root 3 (mk_root (kb "d")) bst) as [[p s']| |] eqn:E; try (vm_compute in E; discriminate).
  split.
  - assert (Hk : forall x, In x b_keep -> In x b_live) by (intros x Hx; vm_compute in Hx; vm_compute; tauto).
    assert (Hk0 : forall x, In x b_keep -> wr_get (wr bst) x = None) by (intros x _; reflexivity).
    destruct (spill_root_view_committed bd b_keep b_live 3 _ b_view 3 bst p s' s' [] []
                (b_root_wf _) (b_root_view _) (or_intror b_good_ready) bst_fresh Hk Hk0 E)
      as (alloc & dead & lv & Hfr & _ & _ & Hlv & _ & Hfin & _).
    intros F HF. apply Hfin; [apply frame_refl, (fr_fresh _ _ _ _ _ Hfr)|].
    change (ndepth (mk_root (kb "d"))) with 2. lia.
  - vm_compute in E. inversion E; subst p s'. split; vm_compute; reflexivity.
Qed.

(* k = "z", outside [d, h): still [wf_node] with the same view ([b_root_wf], [b_root_view]), every other clause
   of [spill_ready] holds ([b_kid_ready] at range (None, None)), but [swf] fails for every fuel -- and for a
   reason: [spill_root] succeeds and the new root still LISTS the view, but the kid's first separator "z"
   replaces the entry "d" of the root, whose separators are then [b; z; h]: the keys "d" and "h", which the
   transaction could look up, cannot be found in the committed tree. *)
Theorem seps_range_needed :
  let n := mk_root (kb "z") in
  wf_node bd n /\ NodeView bd 3 n b_view /\ spill_ready bd b_keep None None (mk_kid (kb "z")) /\
  ~ spill_ready bd b_keep None None n /\ (forall fuel, ~ swf fuel bd b_keep None None n) /\
  lookup_node 3 bd n (kb "d") = Ok (Some (LKv (kb "d") [x04])) /\
  match spill_root 3 n bst with
  | Ok (p, s') =>
      let d' := apply_wr (wr s') 4096 bd in
      page_ents 3 d' p = b_view /\
      option_map (fun a => dkeys (ap_body a)) (dget d' p) = Some [kb "b"; kb "z"; kb "h"] /\
      lookup_page 3 d' p (kb "d") = Ok None /\ lookup_page 3 d' p (kb "h") = Ok None
  | _ => False end.
Proof.
  cbv zeta. split; [apply b_root_wf|]. split; [apply b_root_view|].
  split; [apply b_kid_ready; split; exact I|].
  assert (Hz : ~ s_in_range (Some (kb "d")) (Some (kb "h")) (kb "z")) by (intros [_ H]; vm_compute in H; discriminate).
  split; [intros H; apply Hz, b_root_ready, H|].
  split.
  - intros fuel H. inversion H as [|? ? ? ? ? ? ? ? Hko Hnd1 Hnd2 Ho Hkids Hst]; subst.
    specialize (Hkids (Some (kb "d")) (Some (kb "h")) (kb "d", 12%N) (mk_kid (kb "z"))).
    assert (Hs : swf fuel bd b_keep (Some (kb "d")) (Some (kb "h")) (mk_kid (kb "z"))).
    { apply Hkids; [|reflexivity]. cbn [chb b_es fst]. right. left. reflexivity. }
    inversion Hs as [|? ? ? ? ? ? ? ? Hko' Hnd1' Hnd2' Ho' Hkids' Hst']; subst. destruct Hko' as (_ & _ & Hr). apply Hz, Hr. left. reflexivity.
  - vm_compute. repeat split.
Qed.

(* ====================================================================== *)
Print Assumptions PageView_page_ents.
Print Assumptions page_ents_PageView.
Print Assumptions PageView_iff.
Print Assumptions wf_page_views.
Print Assumptions wf_page_page_ents.
Print Assumptions NodeView_view_leaves.
Print Assumptions subtree_pages_sound.
Print Assumptions subtree_pages_complete.
Print Assumptions PageView_stable.
Print Assumptions wf_page_stable.
Print Assumptions wf_node_swf.
Print Assumptions wf_node_swf_root.
Print Assumptions spill_root_view.
Print Assumptions spill_root_view_committed.
Print Assumptions spill_bucket_root_view.
Print Assumptions ex_root_swf.
Print Assumptions ex_spill_root_view.
Print Assumptions b_good_spill.
Print Assumptions seps_range_needed.
