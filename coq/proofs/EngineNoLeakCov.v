(* The completeness invariant [Cov] of the transaction overlay (the converse of the ownership invariant [OwnI]):
   every page run of the committed footprint is still referred to by the overlay or was handed back; and the
   auxiliary facts relating the pages named by an overlay node to its materialised nodes / unloaded children. *)
From Coq Require Import List NArith Bool Arith Lia ZifyN ZifyNat ZifyBool Permutation.
From Coq.Strings Require Import Byte.
From Jamm Require Spec.
From Jamm Require Import Bytes BytesFacts Tree Cursor SearchFacts Engine EngineAbs EngineFacts EngineMergeFacts.
From Jamm Require Import EngineModifyFacts EngineSpillFacts EnginePathFacts EngineBridgeFacts EngineRebalanceFacts.
From Jamm Require FreelistFacts EngineAllocFacts EngineSpillWfFacts.
From Jamm Require Import EngineTxInvFacts EngineSpillBucketFacts EngineRefines.
From Jamm Require Import EngineOwnDefs EngineOwnWr EngineOwnOps EngineOwnReb EngineOwnSpill.
From Jamm Require Import EngineNoLeakWr EngineNoLeakNode.
Import ListNotations.
Import Coq.Strings.String.StringSyntax. Delimit Scope string_scope with string.
Local Open Scope list_scope. Local Open Scope nat_scope.
Set Warnings "-abstract-large-number".
Arguments N.add : simpl never. Arguments N.sub : simpl never. Arguments N.mul : simpl never.
Arguments N.div : simpl never. Arguments N.ltb : simpl never. Arguments N.leb : simpl never.
Arguments N.eqb : simpl never.

(* ====================================================================== *)
(** * 1. The completeness invariant *)

(* the whole run of head page q was handed back *)
Definition gone (d : disk) (s : txs) (q : N) : Prop := forall x, In x (prun d q) -> freed_in_tx s x = true.

(* [Cov d n s b r0]: the overlay bucket [b] stems from the committed bucket rooted at [r0] (0: created by this
   transaction). Every head page of the committed tree of [r0] is still named by [b]'s own tree, or its run was
   handed back; every nested-bucket entry of the committed bucket is still an entry of [b], or its whole
   footprint was handed back; the same for the opened sub-buckets, each relative to the root its entry names *)
Fixpoint Cov (d : disk) (n : nat) (s : txs) (b : bucket) (r0 : N) : Prop :=
  match n with
  | O => True
  | S n' =>
      forall l, bucket_view d b l ->
        (r0 <> 0%N -> forall q, In q (r0 :: ppages fuel0 d r0) -> In q (bheads d b) \/ gone d s q) /\
        (r0 <> 0%N -> forall k r nx, In (LBk k r nx) (page_ents fuel0 d r0) ->
           In (LBk k r nx) l \/ forall x, In x (foot d n' r) -> freed_in_tx s x = true) /\
        (forall k sb r nx, In (k, sb) (b_subs b) -> In (LBk k r nx) l -> Cov d n' s sb r)
  end.

Lemma Cov_S : forall d n' s b r0, Cov d (S n') s b r0 =
  forall l, bucket_view d b l ->
    (r0 <> 0%N -> forall q, In q (r0 :: ppages fuel0 d r0) -> In q (bheads d b) \/ gone d s q) /\
    (r0 <> 0%N -> forall k r nx, In (LBk k r nx) (page_ents fuel0 d r0) ->
       In (LBk k r nx) l \/ forall x, In x (foot d n' r) -> freed_in_tx s x = true) /\
    (forall k sb r nx, In (k, sb) (b_subs b) -> In (LBk k r nx) l -> Cov d n' s sb r).
Proof. reflexivity. Qed.

(* [Cov] only states that pages were handed back: it survives every step that hands back more *)
Lemma Cov_mono : forall d n s s2 b r0, (forall x, freed_in_tx s x = true -> freed_in_tx s2 x = true) ->
  Cov d n s b r0 -> Cov d n s2 b r0.
Proof.
  intros d. induction n as [|n IH]; intros s s2 b r0 Hm H; [exact I|]. rewrite Cov_S in *.
  intros l Hv. destruct (H l Hv) as (A & B & C). split; [|split].
  - intros Hr q Hq. destruct (A Hr q Hq) as [X|X]; [now left | right; intros x Hx; apply Hm, X, Hx].
  - intros Hr k r nx He. destruct (B Hr k r nx He) as [X|X]; [now left | right; intros x Hx; apply Hm, X, Hx].
  - intros k sb r nx Hk He. eapply IH; [exact Hm | eapply C; eauto].
Qed.

(* only the tree and the opened sub-buckets matter *)
Lemma Cov_tree : forall d n s b b' r0, b_root_page b' = b_root_page b -> b_rootn b' = b_rootn b ->
  b_subs b' = b_subs b -> Cov d n s b r0 -> Cov d n s b' r0.
Proof.
  intros d [|n] s b b' r0 E1 E2 E3 H; [exact I|]. rewrite Cov_S in *. intros l Hv.
  assert (Hv0 : bucket_view d b l) by (eapply (bucket_view_tree d b'); eauto).
  destruct (H l Hv0) as (A & B & C). rewrite (bheads_tree d b b' E1 E2), E3. auto.
Qed.

(* a bucket created by the running transaction *)
Lemma Cov_zero : forall d n s b, (forall k sb, ~ In (k, sb) (b_subs b)) -> Cov d n s b 0%N.
Proof.
  intros d [|n] s b Hs; [exact I|]. rewrite Cov_S. intros l _.
  split; [intros Hc; now contradiction Hc|]. split; [intros Hc; now contradiction Hc|].
  intros k sb r nx Hk. exfalso. eapply Hs; eauto.
Qed.

(* ====================================================================== *)
(** * 2. Named pages: materialised nodes and unloaded children *)

Lemma mpages_kid : forall n kd x, In kd (n_kids n) -> In x (mpages kd) -> In x (mpages n).
Proof. intros n kd x Hk Hx. rewrite mpages_eq. apply in_or_app. right. apply in_flat_map. eauto. Qed.

(* a page named by the overlay below n is the page of a materialised kid, or lies at or below an unloaded child *)
Lemma npages_split : forall h d n q, In q (npages h d n) ->
  q = 0%N \/ In q (flat_map mpages (n_kids n)) \/ exists u, uhead n u /\ in_subtree d u q.
Proof.
  induction h as [|h IH]; intros d n q H; [destruct H|].
  destruct n as [p np o sq [l|es] ks]; [destruct H|]. rewrite npages_branch_eq in H. cbn [n_kids].
  apply in_app_or in H. destruct H as [H|H].
  - apply in_map_iff in H. destruct H as (e & <- & He). destruct (find_kid (snd e) ks) as [kd|] eqn:Hf.
    + destruct (EngineSpillFacts.find_kid_In _ _ _ Hf) as [Hkd Ep].
      destruct (N.eq_dec (snd e) 0) as [E|E]; [now left|]. right; left. apply in_flat_map. exists kd. split; [exact Hkd|].
      rewrite mpages_eq, Ep. apply in_or_app. left. destruct (N.eqb_spec (snd e) 0); [contradiction | now left].
    + right; right. exists (snd e). split; [now apply uh_here | apply ist_self].
  - apply in_flat_map in H. destruct H as (e & He & H). unfold cpages in H.
    destruct (find_kid (snd e) ks) as [kd|] eqn:Hf.
    + destruct (EngineSpillFacts.find_kid_In _ _ _ Hf) as [Hkd Ep].
      destruct (IH d kd q H) as [A|[A|(u & Hu & Hs)]]; [now left | |].
      * right; left. apply in_flat_map in A. destruct A as (k2 & Hk2 & A). apply in_flat_map. exists kd.
        split; [exact Hkd | eapply mpages_kid; eauto].
      * right; right. exists u. split; [eapply uh_kid; eauto | exact Hs].
    + right; right. exists (snd e). split; [now apply uh_here | eapply ppages_subtree; eauto].
Qed.

(* the run of a materialised page is an old run of the overlay *)
Lemma mpages_oldruns : forall d n, pg_ok d n -> forall q x, In q (mpages n) -> In x (prun d q) -> In x (oldruns n).
Proof.
  intros d n H. induction H as [n Hp _ IH]. intros q x Hq Hx. rewrite mpages_eq in Hq. rewrite oldruns_eq.
  apply in_or_app. apply in_app_or in Hq. destruct Hq as [Hq|Hq].
  - left. destruct (N.eqb_spec (n_page n) 0) as [E|E]; [destruct Hq|]. destruct Hq as [<-|[]].
    destruct (Hp E) as (a & Hg & Enp). unfold prun in Hx. rewrite Hg in Hx. apply In_old_pages. split; [exact E|].
    apply In_nrun in Hx. lia.
  - right. apply in_flat_map in Hq. destruct Hq as (k & Hk & Hq). apply in_flat_map. exists k. split; [exact Hk | eapply IH; eauto].
Qed.

(* the unloaded children are kept pages *)
Lemma uhead_keep : forall fuel d keep h lo hi n, swfh fuel d keep h lo hi n -> forall u, uhead n u -> In u keep.
Proof.
  intros fuel d keep. induction h as [|h IH]; intros lo hi n H u Hu;
    inversion H as [? ? ? ? ? ? ? ? Hk|? ? ? ? ? ? ? ? ? Hk H1 H2 H3 H4 H5]; subst; [inversion Hu|].
  inversion Hu as [? ? ? ? ? ? e He Hf | ? ? ? ? ? ? e kd q He Hf Hq]; subst.
  - destruct (chb_In lo hi es e He) as (l & hh & Hi). destruct (H5 l hh e Hi Hf) as [Hst _].
    destruct fuel as [|fuel]; [destruct Hst | cbn [stable] in Hst; apply Hst].
  - destruct (chb_In lo hi es e He) as (l & hh & Hi). eapply IH; [apply (H4 l hh e kd Hi Hf) | exact Hq].
Qed.

(* ====================================================================== *)
(** * 3. Subtrees on later disks *)

Lemma wsub_subtree : forall w P d p q, wsub w p q -> in_subtree (apply_wr w P d) p q.
Proof.
  intros w P d p q H. induction H as [p | p sz es e q Hg He _ IH]; [apply ist_self|].
  eapply ist_kid; [apply dget_apply_wr_some; exact Hg | reflexivity | exact He | exact IH].
Qed.

Lemma subtree_transfer : forall d D u q, (forall y, in_subtree d u y -> dget D y = dget d y) ->
  in_subtree d u q -> in_subtree D u q.
Proof.
  intros d D u q Hag H. induction H as [u | u a es e x Hg Hb He Hs IH]; [apply ist_self|].
  eapply ist_kid; [rewrite (Hag u (ist_self d u)); exact Hg | exact Hb | exact He|].
  apply IH. intros y Hy. apply Hag. eapply ist_kid; eauto.
Qed.

Lemma subtree_trans : forall d a b c, in_subtree d a b -> in_subtree d b c -> in_subtree d a c.
Proof.
  intros d a b c H. induction H as [u | u a0 es e x Hg Hb He Hs IH]; intros Hc; [exact Hc | eapply ist_kid; eauto].
Qed.

Lemma present_subtree : forall f D p q, pages_present f D p -> in_subtree D p q -> In q (p :: ppages f D p).
Proof.
  induction f as [|f IH]; intros D p q Hp H; [destruct Hp|].
  inversion H as [|? a es e ? Hg Hb He Hs]; subst; [now left|]. right.
  cbn [pages_present] in Hp. rewrite Hg, Hb in Hp. cbn [ppages]. rewrite Hg, Hb.
  destruct (IH D (snd e) q (Hp e He) Hs) as [<-|Hq].
  - apply in_or_app. left. now apply in_map.
  - apply in_or_app. right. apply in_flat_map. eauto.
Qed.

(* what was written stays written through a frame *)
Lemma frame_wr_mono : forall live s s' alloc dead, fresh_inv live s -> frame live s s' alloc dead ->
  (forall q, wr_get (wr s) q <> None -> In q live) ->
  forall q v, wr_get (wr s) q = Some v -> wr_get (wr s') q = Some v.
Proof.
  intros live s s' alloc dead Hfi Hfr Hwl q v Hq. rewrite (fr_wr _ _ _ _ _ Hfr); [exact Hq|].
  intros Hi. apply (frame_new _ _ _ _ _ q Hfi Hfr Hi). apply Hwl. congruence.
Qed.

Print Assumptions npages_split.
