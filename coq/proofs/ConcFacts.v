(* ConcFacts: unbounded (any number of threads, any schedule) proofs about the lock protocol of
   model/Conc.v:  C09_mutex, C04_snapshots (repaired protocol), C04_fresh, C09_fresh_writer,
   C09_progress, C04_legacy_refuted, and non-vacuity examples. *)
From Coq Require Import List NArith Bool Arith Lia.
From Jamm Require Import Conc.
Import ListNotations.
Local Open Scope list_scope.
Local Open Scope nat_scope.

(* ------------------------------------------------------------------ *)
(* utilities: set_nth, remove1, minl                                   *)
(* ------------------------------------------------------------------ *)

Lemma set_nth_length {A} (l : list A) i x : length (set_nth l i x) = length l.
Proof. revert i; induction l as [|y l IH]; intros [|i]; simpl; auto. Qed.

Lemma nth_set_eq {A} (l : list A) i x : i < length l -> nth_error (set_nth l i x) i = Some x.
Proof.
  revert i; induction l as [|y l IH]; intros [|i] H; simpl in *; try lia; auto.
  apply IH; lia.
Qed.

Lemma nth_set_neq {A} (l : list A) i j x : j <> i -> nth_error (set_nth l i x) j = nth_error l j.
Proof.
  revert i j; induction l as [|y l IH]; intros [|i] [|j] H; simpl in *; try congruence; auto.
Qed.

Lemma nth_set_inv {A} (l : list A) i j x y :
  nth_error (set_nth l i x) j = Some y -> (j = i /\ y = x) \/ (j <> i /\ nth_error l j = Some y).
Proof.
  intros H. destruct (Nat.eq_dec j i) as [->|Hne].
  - left. split; auto.
    destruct (Nat.lt_ge_cases i (length l)) as [Hl|Hl].
    + rewrite nth_set_eq in H by exact Hl. congruence.
    + assert (Hn : nth_error (set_nth l i x) i = None)
        by (apply nth_error_None; rewrite set_nth_length; exact Hl).
      congruence.
  - right. split; auto. rewrite nth_set_neq in H by exact Hne. exact H.
Qed.

Lemma nth_set_same {A} (l : list A) i t x :
  nth_error l i = Some t -> nth_error (set_nth l i x) i = Some x.
Proof. intros H. apply nth_set_eq. apply nth_error_Some. congruence. Qed.

Lemma In_remove1 x y l : In y (remove1 x l) -> In y l.
Proof.
  induction l as [|z l IH]; simpl; auto.
  destruct (Nat.eqb x z); simpl; intuition.
Qed.

Lemma NoDup_remove1 x l : NoDup l -> NoDup (remove1 x l).
Proof.
  induction 1 as [|z l Hz Hnd IH]; simpl; [constructor|].
  destruct (Nat.eqb x z); auto. constructor; auto.
  intros Hin. apply Hz. eapply In_remove1; eauto.
Qed.

Lemma NoDup_remove1_notin x l : NoDup l -> ~ In x (remove1 x l).
Proof.
  induction 1 as [|z l Hz Hnd IH]; simpl; auto.
  destruct (Nat.eqb x z) eqn:E.
  - apply Nat.eqb_eq in E. subst. exact Hz.
  - apply Nat.eqb_neq in E. simpl. intros [->|H]; [congruence|auto].
Qed.

Lemma fold_min_le d l : fold_left Nat.min l d <= d.
Proof.
  revert d; induction l as [|x l IH]; intros d; simpl; auto.
  etransitivity; [apply IH|]. apply Nat.le_min_l.
Qed.

Lemma minl_le_d d l : minl d l <= d.
Proof. apply fold_min_le. Qed.

Lemma minl_le_In d l x : In x l -> minl d l <= x.
Proof.
  unfold minl. revert d; induction l as [|y l IH]; intros d; simpl; [tauto|].
  intros [->|H].
  - etransitivity; [apply fold_min_le|]. apply Nat.le_min_r.
  - apply IH; exact H.
Qed.

(* ------------------------------------------------------------------ *)
(* case analysis of one step                                           *)
(* ------------------------------------------------------------------ *)

Ltac step_cases H t Hi Hpc :=
  unfold step in H;
  destruct (nth_error (threads _) _) as [t|] eqn:Hi; [|discriminate H];
  destruct (t_pc t) eqn:Hpc; cbv iota beta zeta in H;
  repeat match type of H with
         | context [if ?c then _ else _] => destruct c eqn:?; cbv iota in H
         | context [match wr ?s with _ => _ end] => destruct (wr s) eqn:?; cbv iota in H
         | context [match fileM ?s with _ => _ end] => destruct (fileM s) eqn:?; cbv iota in H
         | context [match rd ?s with _ => _ end] => destruct (rd s) eqn:?; cbv iota in H
         end;
  try discriminate H;
  inversion H; subst; clear H; unfold upd, with_pc in *; simpl in *.

(* thread j of the successor state: either the moved thread or an untouched one *)
Ltac split_thread Hj Hne :=
  apply nth_set_inv in Hj; destruct Hj as [[-> ->] | [Hne Hj]]; simpl in *.

(* ------------------------------------------------------------------ *)
(* run follows step                                                    *)
(* ------------------------------------------------------------------ *)

Lemma reachable_run ab s0 sched : forall s, reachable ab s0 s -> reachable ab s0 (run ab s sched).
Proof.
  induction sched as [|i r IH]; intros s Hs; simpl; auto.
  destruct (step ab s i) as [s'|] eqn:E; auto.
  apply IH. eapply reach_step; eauto.
Qed.

(* generic invariant principle *)
Lemma reachable_ind_inv (ab : bool) (P : cstate -> Prop) s0 :
  P s0 -> (forall s i s', P s -> step ab s i = Some s' -> P s') ->
  forall s, reachable ab s0 s -> P s.
Proof. intros H0 Hstep s Hr. induction Hr; eauto. Qed.

(* ------------------------------------------------------------------ *)
(* 6. C04_legacy_refuted                                               *)
(* ------------------------------------------------------------------ *)

Definition ex_s0 : cstate := init 3 [reader0; writer0 false; writer0 false].
Definition ex_sched : list nat := [0;0;0] ++ repeat 1 12 ++ repeat 2 6 ++ [0;0].

Lemma ex_initial : initial_threads [reader0; writer0 false; writer0 false].
Proof. unfold initial_threads, reader0, writer0. repeat (apply Forall_cons || apply Forall_nil); simpl; auto. Qed.

Lemma snapshots_okb_spec s : snapshots_okb s = true <-> snapshots_ok s.
Proof.
  unfold snapshots_okb, snapshots_ok. rewrite forallb_forall. split.
  - intros H i t Hi Ha. apply nth_error_In in Hi. specialize (H _ Hi).
    rewrite Ha in H. simpl in H. apply Nat.leb_le. exact H.
  - intros H t Hin. apply In_nth_error in Hin. destruct Hin as [i Hi].
    destruct (reader_active (t_pc t)) eqn:Ha; simpl; auto.
    apply Nat.leb_le. eapply H; eauto.
Qed.

Lemma ex_legacy_bad : snapshots_okb (run false ex_s0 ex_sched) = false.
Proof. vm_compute. reflexivity. Qed.

Lemma ex_legacy_reachable : reachable false ex_s0 (run false ex_s0 ex_sched).
Proof. apply reachable_run. constructor. Qed.

Theorem C04_legacy_refuted :
  initial_threads [reader0; writer0 false; writer0 false] /\
  reachable false ex_s0 (run false ex_s0 ex_sched) /\
  snapshots_okb (run false ex_s0 ex_sched) = false /\
  ~ (forall s, reachable false ex_s0 s -> snapshots_ok s).
Proof.
  split; [exact ex_initial|]. split; [exact ex_legacy_reachable|]. split; [exact ex_legacy_bad|].
  intros H. specialize (H _ ex_legacy_reachable). apply snapshots_okb_spec in H.
  rewrite ex_legacy_bad in H. discriminate H.
Qed.

(* in the general form: C04_snapshots is false for ab = false *)
Corollary C04_legacy_refuted' :
  ~ (forall c0 ts s, initial_threads ts -> reachable false (init c0 ts) s -> snapshots_ok s).
Proof.
  intros H. destruct C04_legacy_refuted as (Hi & Hr & Hb & _).
  specialize (H _ _ _ Hi Hr). apply snapshots_okb_spec in H. rewrite Hb in H. discriminate H.
Qed.

(* ------------------------------------------------------------------ *)
(* 7. non-vacuity                                                      *)
(* ------------------------------------------------------------------ *)

Example ex_repaired_ok : snapshots_okb (run true ex_s0 ex_sched) = true.
Proof. vm_compute. reflexivity. Qed.

Definition ex_sched_all : list nat := repeat 0 8 ++ repeat 1 12 ++ repeat 2 12.

Example ex_all_done_true : all_done (run true ex_s0 ex_sched_all) = true.
Proof. vm_compute. reflexivity. Qed.
Example ex_all_done_false : all_done (run false ex_s0 ex_sched_all) = true.
Proof. vm_compute. reflexivity. Qed.
Example ex_all_done_reachable ab : reachable ab ex_s0 (run ab ex_s0 ex_sched_all).
Proof. apply reachable_run. constructor. Qed.
(* an interleaved schedule (reader inside the first writer's commit), with a growing writer *)
Example ex_interleaved_done :
  let s0 := init 7 [writer0 true; reader0; writer0 false; reader0] in
  let sch := [0;1;0;2;1;0;3;0;1;1;0;1;3;3;1;1;3;0;0;3;3;0;0;3;3;0;0;0;0;0;0] ++ repeat 2 12 in
  all_done (run true s0 sch) = true /\ snapshots_okb (run true s0 sch) = true.
Proof. vm_compute. split; reflexivity. Qed.

(* ------------------------------------------------------------------ *)
(* 1. C09_mutex                                                        *)
(* ------------------------------------------------------------------ *)

(* a thread inside the writer section is the recorded holder of fileM ... *)
Definition inv_mutex (s : cstate) : Prop :=
  forall i t, nth_error (threads s) i = Some t -> in_writer_section (t_pc t) = true -> fileM s = Some i.
(* ... and the recorded holder is inside the writer section *)
Definition inv_holder (s : cstate) : Prop :=
  forall i, fileM s = Some i -> exists t, nth_error (threads s) i = Some t /\ in_writer_section (t_pc t) = true.

Lemma initial_not_in_section ts i t :
  initial_threads ts -> nth_error ts i = Some t -> t_pc t = WStart \/ t_pc t = RStart.
Proof.
  intros Hts Hi. apply nth_error_In in Hi. unfold initial_threads in Hts.
  rewrite Forall_forall in Hts. specialize (Hts _ Hi). intuition.
Qed.

Lemma inv_mutex_init c0 ts : initial_threads ts -> inv_mutex (init c0 ts).
Proof.
  intros Hts i t Hi Hw. simpl in Hi.
  destruct (initial_not_in_section _ _ _ Hts Hi) as [E|E]; rewrite E in Hw; discriminate.
Qed.

Lemma inv_holder_init c0 ts : inv_holder (init c0 ts).
Proof. intros i H. discriminate. Qed.

Lemma inv_mutex_step ab s i s' : inv_mutex s -> step ab s i = Some s' -> inv_mutex s'.
Proof.
  intros IH H. step_cases H t Hi Hpc; intros j tj Hj Hw; simpl in *;
    pose proof (IH _ _ Hi) as Hii; rewrite Hpc in Hii; simpl in Hii;
    (split_thread Hj Hne;
     [ try discriminate; try (apply Hii; reflexivity); auto
     | pose proof (IH _ _ Hj Hw) as Hjj; try specialize (Hii eq_refl); congruence ]).
Qed.

Lemma inv_holder_step ab s i s' : inv_mutex s -> inv_holder s -> step ab s i = Some s' -> inv_holder s'.
Proof.
  intros IM IH H. pose proof (IM i) as Hii.
  step_cases H t Hi Hpc; intros j Hf; simpl in *;
    specialize (Hii _ eq_refl); rewrite Hpc in Hii; simpl in Hii;
    try discriminate;
    try (injection Hf as <-; eexists; split; [eapply nth_set_same; eauto | reflexivity]);
    (destruct (Nat.eq_dec j i) as [->|Hne];
     [ eexists; split; [eapply nth_set_same; eauto | simpl; try reflexivity]
     | destruct (IH _ Hf) as (tj & Hj & Hw); exists tj; split; [rewrite nth_set_neq by exact Hne; exact Hj | exact Hw] ]);
    try (destruct (IH _ Hf) as (tj & Hj & Hw); rewrite Hi in Hj; injection Hj as <-; rewrite Hpc in Hw; discriminate).
Qed.

Theorem C09_mutex_inv ab c0 ts s :
  initial_threads ts -> reachable ab (init c0 ts) s -> inv_mutex s /\ inv_holder s.
Proof.
  intros Hts. apply (reachable_ind_inv ab (fun s => inv_mutex s /\ inv_holder s)).
  - split; [apply inv_mutex_init; exact Hts | apply inv_holder_init].
  - intros s1 i s1' [IM IH] Hst. split; [eapply inv_mutex_step | eapply inv_holder_step]; eauto.
Qed.

Lemma inv_mutex_ok s : inv_mutex s -> mutex_ok s.
Proof.
  intros IM i j ti tj Hi Hj Hwi Hwj.
  pose proof (IM _ _ Hi Hwi). pose proof (IM _ _ Hj Hwj). congruence.
Qed.

Theorem C09_mutex : forall ab c0 ts s,
  initial_threads ts -> reachable ab (init c0 ts) s -> mutex_ok s.
Proof. intros ab c0 ts s Hts Hr. apply inv_mutex_ok. eapply C09_mutex_inv; eauto. Qed.

(* the characterisation asked for: i holds fileM iff thread i is in the writer section *)
Theorem C09_mutex_holder : forall ab c0 ts s i,
  initial_threads ts -> reachable ab (init c0 ts) s ->
  (fileM s = Some i <-> exists t, nth_error (threads s) i = Some t /\ in_writer_section (t_pc t) = true).
Proof.
  intros ab c0 ts s i Hts Hr. destruct (C09_mutex_inv _ _ _ _ Hts Hr) as [IM IH]. split.
  - apply IH.
  - intros (t & Hi & Hw). eapply IM; eauto.
Qed.

(* ------------------------------------------------------------------ *)
(* 4. C09_fresh_writer                                                 *)
(* ------------------------------------------------------------------ *)

(* pcs between a writer's header read and its own header write *)
Definition holds_hdr (p : pc) : bool :=
  match p with WHdr | WReg | CGrow1 | CGrow2 | CGrow3 | CData | CHeaderNext => true | _ => false end.

Definition inv_fresh (s : cstate) : Prop :=
  forall i t, nth_error (threads s) i = Some t -> holds_hdr (t_pc t) = true -> t_hdr t = cur s.

Lemma holds_hdr_section p : holds_hdr p = true -> in_writer_section p = true.
Proof. destruct p; simpl; congruence. Qed.

Lemma inv_fresh_init c0 ts : initial_threads ts -> inv_fresh (init c0 ts).
Proof.
  intros Hts i t Hi Hw. simpl in Hi.
  destruct (initial_not_in_section _ _ _ Hts Hi) as [E|E]; rewrite E in Hw; discriminate.
Qed.

Lemma inv_fresh_step ab s i s' : inv_mutex s -> inv_fresh s -> step ab s i = Some s' -> inv_fresh s'.
Proof.
  intros IM IH H. step_cases H t Hi Hpc; intros j tj Hj Hh; simpl in *;
    (split_thread Hj Hne;
     [ try discriminate Hh; try reflexivity; try (apply (IH _ _ Hi); rewrite Hpc; reflexivity)
     | try (exact (IH _ _ Hj Hh)); exfalso;
       pose proof (IM _ _ Hj (holds_hdr_section _ Hh));
       assert (fileM s = Some i) by (apply (IM _ _ Hi); rewrite Hpc; reflexivity);
       congruence ]).
Qed.

Theorem C09_fresh_writer_inv ab c0 ts s :
  initial_threads ts -> reachable ab (init c0 ts) s -> inv_fresh s.
Proof.
  intros Hts Hr.
  cut (inv_mutex s /\ inv_fresh s); [tauto|]. revert s Hr.
  apply (reachable_ind_inv ab (fun s => inv_mutex s /\ inv_fresh s)).
  - split; [apply inv_mutex_init | apply inv_fresh_init]; exact Hts.
  - intros s1 i s1' [IM IF] Hst. split; [eapply inv_mutex_step | eapply inv_fresh_step]; eauto.
Qed.

(* every thread between its header read and its header write still sees the current header *)
Theorem C09_fresh_writer : forall ab c0 ts s i t,
  initial_threads ts -> reachable ab (init c0 ts) s ->
  nth_error (threads s) i = Some t ->
  In (t_pc t) [WHdr; WReg; CGrow1; CGrow2; CGrow3; CData; CHeaderNext] ->
  t_hdr t = cur s.
Proof.
  intros ab c0 ts s i t Hts Hr Hi Hin. eapply C09_fresh_writer_inv; eauto.
  simpl in Hin. repeat (destruct Hin as [<-|Hin]; [reflexivity|]). tauto.
Qed.

Lemma step_cur_cases ab s i s' :
  inv_fresh s -> step ab s i = Some s' -> cur s' = cur s \/ cur s' = S (cur s).
Proof.
  intros IF H. step_cases H t Hi Hpc; auto.
  right. f_equal. apply (IF _ _ Hi). rewrite Hpc. reflexivity.
Qed.

(* no lost update: every step leaves cur alone or increments it by exactly one *)
Theorem C09_commit_increments : forall ab c0 ts s i s',
  initial_threads ts -> reachable ab (init c0 ts) s -> step ab s i = Some s' ->
  cur s' = cur s \/ cur s' = S (cur s).
Proof. intros. eapply step_cur_cases; eauto. eapply C09_fresh_writer_inv; eauto. Qed.

(* ... and the only step that changes cur is a header write, by a thread that read cur s *)
Theorem C09_commit_header : forall ab c0 ts s i s' t,
  initial_threads ts -> reachable ab (init c0 ts) s -> step ab s i = Some s' ->
  nth_error (threads s) i = Some t ->
  (t_pc t = CHeaderNext -> t_hdr t = cur s /\ cur s' = S (cur s)) /\
  (t_pc t <> CHeaderNext -> cur s' = cur s).
Proof.
  intros ab c0 ts s i s' t Hts Hr H Ht.
  pose proof (C09_fresh_writer_inv _ _ _ _ Hts Hr) as IF.
  step_cases H t0 Hi Hpc; injection Ht as <-; (split; [intros E; try congruence | intros E; try congruence]).
  assert (t_hdr t0 = cur s) by (apply (IF _ _ Hi); rewrite Hpc; reflexivity). split; congruence.
Qed.

(* ------------------------------------------------------------------ *)
(* 3. C04_fresh                                                        *)
(* ------------------------------------------------------------------ *)

Theorem C04_fresh_register : forall s i s' t,
  step true s i = Some s' -> nth_error (threads s) i = Some t -> t_pc t = RFl ->
  exists t', nth_error (threads s') i = Some t' /\ t_hdr t' = cur s /\ t_pc t' = RReg /\
             readers s' = cur s :: readers s /\ cur s' = cur s.
Proof.
  intros s i s' t H Ht Hp. unfold step in H. rewrite Ht, Hp in H. injection H as <-. simpl.
  eexists. split; [eapply nth_set_same; eauto|]. simpl. auto.
Qed.

Theorem C04_cur_monotone_step : forall ab c0 ts s i s',
  initial_threads ts -> reachable ab (init c0 ts) s -> step ab s i = Some s' -> cur s <= cur s'.
Proof. intros. destruct (C09_commit_increments _ _ _ _ _ _ H H0 H1); lia. Qed.

Inductive reach_from (ab : bool) (s : cstate) : cstate -> Prop :=
| rf_refl : reach_from ab s s
| rf_step s1 i s2 : reach_from ab s s1 -> step ab s1 i = Some s2 -> reach_from ab s s2.

Lemma reachable_trans ab s0 s s' : reachable ab s0 s -> reach_from ab s s' -> reachable ab s0 s'.
Proof. intros Hr Hf. induction Hf; auto. eapply reach_step; eauto. Qed.

(* cur never decreases between a reachable state and any later state *)
Theorem C04_cur_monotone : forall ab c0 ts s s',
  initial_threads ts -> reachable ab (init c0 ts) s -> reach_from ab s s' -> cur s <= cur s'.
Proof.
  intros ab c0 ts s s' Hts Hr Hf. induction Hf; auto.
  etransitivity; [apply IHHf; exact Hr|].
  eapply C04_cur_monotone_step; eauto. eapply reachable_trans; eauto.
Qed.

(* the snapshot a reader registers is at least as new as the header current in any earlier state *)
Theorem C04_fresh : forall c0 ts s_before s i s' t,
  initial_threads ts -> reachable true (init c0 ts) s_before -> reach_from true s_before s ->
  step true s i = Some s' -> nth_error (threads s) i = Some t -> t_pc t = RFl ->
  exists t', nth_error (threads s') i = Some t' /\ t_hdr t' = cur s /\ cur s_before <= t_hdr t'.
Proof.
  intros c0 ts sb s i s' t Hts Hr Hf H Ht Hp.
  destruct (C04_fresh_register _ _ _ _ H Ht Hp) as (t' & Ht' & Hh & _).
  exists t'. repeat split; auto. rewrite Hh. eapply C04_cur_monotone; eauto.
Qed.

(* ------------------------------------------------------------------ *)
(* 2. C04_snapshots (repaired protocol, ab = true)                     *)
(* ------------------------------------------------------------------ *)

(* contribution of thread t to the number of active readers of snapshot r *)
Definition act (r : nat) (t : thread) : nat :=
  if reader_active (t_pc t) then (if t_hdr t =? r then 1 else 0) else 0.
Fixpoint cnt (r : nat) (ts : list thread) : nat :=
  match ts with [] => 0 | t :: ts' => act r t + cnt r ts' end.

Lemma cnt_set_nth r l i t x :
  nth_error l i = Some t -> cnt r (set_nth l i x) + act r t = cnt r l + act r x.
Proof.
  revert i; induction l as [|y l IH]; intros [|i] H; simpl in *; try discriminate.
  - injection H as ->. lia.
  - specialize (IH _ H). lia.
Qed.

Lemma cnt_pos r l i t : nth_error l i = Some t -> act r t = 1 -> 1 <= cnt r l.
Proof.
  revert i; induction l as [|y l IH]; intros [|i] H Ha; simpl in *; try discriminate.
  - injection H as ->. lia.
  - specialize (IH _ H Ha). lia.
Qed.

Lemma count_remove1_eq x l :
  count_occ Nat.eq_dec (remove1 x l) x = pred (count_occ Nat.eq_dec l x).
Proof.
  induction l as [|y l IH]; simpl; auto.
  destruct (Nat.eqb_spec x y) as [->|Hne].
  - destruct (Nat.eq_dec y y); [reflexivity|congruence].
  - simpl. destruct (Nat.eq_dec y x); [congruence|exact IH].
Qed.

Lemma count_remove1_neq x r l : r <> x ->
  count_occ Nat.eq_dec (remove1 x l) r = count_occ Nat.eq_dec l r.
Proof.
  intros Hne. induction l as [|y l IH]; simpl; auto.
  destruct (Nat.eqb_spec x y) as [->|Hxy].
  - destruct (Nat.eq_dec y r); [congruence|reflexivity].
  - simpl. destruct (Nat.eq_dec y r); congruence.
Qed.

(* pcs at which t_wrel is the writer's applied release bound *)
Definition has_wrel (p : pc) : bool :=
  match p with
  | WFl | WReg | CGrow1 | CGrow2 | CGrow3 | CData | CHeaderNext | CSyncNext | CPublishNext => true
  | _ => false
  end.

(* x is a safe release bound: nothing at or above the oldest live snapshot / the current header is released *)
Definition bound (s : cstate) (x : nat) : Prop :=
  x <= S (cur s) /\ forall r, In r (readers s) -> x <= S r.

Record SInv (s : cstate) : Prop := {
  si_cl_cur : cl s <= cur s;
  si_cl_rd  : forall r, In r (readers s) -> cl s <= r;
  si_rel    : bound s (rel s);
  si_wrel   : forall i t, nth_error (threads s) i = Some t -> has_wrel (t_pc t) = true -> bound s (t_wrel t);
  si_nohdr  : forall i t, nth_error (threads s) i = Some t -> t_pc t <> RHdr /\ t_pc t <> WHdr;
  si_count  : forall r, count_occ Nat.eq_dec (readers s) r = cnt r (threads s)
}.

Lemma cnt_initial r ts : initial_threads ts -> cnt r ts = 0.
Proof.
  unfold initial_threads. induction 1 as [|t ts Ht _ IH]; simpl; auto.
  rewrite IH. unfold act. destruct Ht as [[_ E]|[_ [E _]]]; rewrite E; reflexivity.
Qed.

Lemma SInv_init c0 ts : initial_threads ts -> SInv (init c0 ts).
Proof.
  intros Hts. constructor; simpl.
  - lia.
  - tauto.
  - split; simpl; [lia|tauto].
  - intros i t Hi Hw. destruct (initial_not_in_section _ _ _ Hts Hi) as [E|E]; rewrite E in Hw; discriminate.
  - intros i t Hi. destruct (initial_not_in_section _ _ _ Hts Hi) as [E|E]; rewrite E; split; discriminate.
  - intros r. rewrite cnt_initial by exact Hts. reflexivity.
Qed.

Lemma bound_mono s s' x :
  cur s <= cur s' -> (forall r, In r (readers s') -> In r (readers s) \/ r = cur s) ->
  bound s x -> bound s' x.
Proof.
  intros Hc Hr [B1 B2]. split; [lia|].
  intros r Hin. destruct (Hr _ Hin) as [H| ->]; [apply B2; exact H | exact B1].
Qed.

(* facts about the moving thread, from the invariants *)
Ltac thread_facts IF HS t Hi Hpc :=
  let Hf := fresh "Hfresh" in
  pose proof (IF _ _ Hi) as Hf; rewrite Hpc in Hf; simpl in Hf; try specialize (Hf eq_refl);
  let Hw := fresh "Hwrel" in
  pose proof (si_wrel _ HS _ _ Hi) as Hw; rewrite Hpc in Hw; simpl in Hw; try specialize (Hw eq_refl);
  let Hn := fresh "Hnohdr" in
  pose proof (si_nohdr _ HS _ _ Hi) as Hn; rewrite Hpc in Hn;
  try (exfalso; clear - Hn; destruct Hn as [Hn1 Hn2]; first [apply Hn1; reflexivity | apply Hn2; reflexivity]).

Ltac rd_case Hr :=
  simpl in Hr; try apply In_remove1 in Hr; try (destruct Hr as [<-|Hr]).

(* readers only gains cur s, cur only grows *)
Lemma step_readers_cur s i s' :
  inv_fresh s -> SInv s -> step true s i = Some s' ->
  cur s <= cur s' /\ forall r, In r (readers s') -> In r (readers s) \/ r = cur s.
Proof.
  intros IF HS H. step_cases H t Hi Hpc; thread_facts IF HS t Hi Hpc;
    try (exfalso; tauto); try discriminate;
    (split; [try lia | intros r Hr; rd_case Hr; auto]).
Qed.

Lemma SInv_step s i s' :
  inv_mutex s -> inv_fresh s -> SInv s -> step true s i = Some s' -> SInv s'.
Proof.
  intros IM IF HS H.
  destruct (step_readers_cur _ _ _ IF HS H) as [Hcur Hrd].
  pose proof (si_cl_cur _ HS) as Hclcur. pose proof (si_cl_rd _ HS) as Hclrd.
  pose proof (si_rel _ HS) as Hrel.
  constructor.
  - (* cl <= cur *)
    step_cases H t Hi Hpc; thread_facts IF HS t Hi Hpc; try discriminate; try lia.
    destruct Hwrel as [B1 _]. lia.
  - (* cl <= every registered snapshot *)
    intros r Hr. destruct (Hrd _ Hr) as [Hin| ->].
    + step_cases H t Hi Hpc; thread_facts IF HS t Hi Hpc; try discriminate; try (apply Hclrd; exact Hin).
      destruct Hwrel as [_ B2]. specialize (B2 _ Hin). specialize (Hclrd _ Hin). lia.
    + step_cases H t Hi Hpc; thread_facts IF HS t Hi Hpc; try discriminate; try lia.
      destruct Hwrel as [B1 _]. lia.
  - (* rel *)
    step_cases H t Hi Hpc; thread_facts IF HS t Hi Hpc; try discriminate;
      try (eapply bound_mono; [exact Hcur | exact Hrd | exact Hrel]).
    eapply bound_mono; [exact Hcur | exact Hrd | exact Hwrel].
  - (* t_wrel *)
    intros j tj Hj Hw.
    assert (Hold : forall x, bound s x -> bound s' x) by (intros x; apply bound_mono; assumption).
    step_cases H t Hi Hpc; thread_facts IF HS t Hi Hpc; try discriminate;
      (split_thread Hj Hne;
       [ try discriminate Hw; try (apply Hold; assumption)
       | apply Hold; eapply si_wrel; eauto ]).
    (* WFl -> WReg: max (t_wrel t) (minl (S cur) readers) *)
    destruct Hwrel as [B1 B2]. split; simpl.
    + pose proof (minl_le_d (S (cur s)) (readers s)). lia.
    + intros r Hr. specialize (B2 _ Hr). pose proof (minl_le_In (S (cur s)) _ _ Hr). lia.
  - (* RHdr / WHdr unreachable *)
    intros j tj Hj.
    step_cases H t Hi Hpc; thread_facts IF HS t Hi Hpc; try discriminate;
      (split_thread Hj Hne;
       [ split; try discriminate; try (destruct (t_grows t); discriminate)
       | eapply si_nohdr; eauto ]).
  - (* multiset of registered snapshots = multiset of active readers' snapshots *)
    intros r. pose proof (si_count _ HS r) as Hc.
    step_cases H t Hi Hpc; thread_facts IF HS t Hi Hpc; try discriminate;
      match goal with |- context [set_nth _ _ ?x] => pose proof (cnt_set_nth r _ _ _ x Hi) as Hs end;
      unfold act in Hs; simpl in Hs; rewrite Hpc in Hs; simpl in Hs;
      try (match type of Hs with context [if t_grows ?t then _ else _] => destruct (t_grows t); simpl in Hs end);
      try lia.
    + (* RFl: register cur s *)
      destruct (Nat.eq_dec (cur s) r) as [E|E]; [apply Nat.eqb_eq in E | apply Nat.eqb_neq in E];
        rewrite E in Hs; lia.
    + (* REnd: deregister t_hdr t *)
      destruct (Nat.eqb_spec (t_hdr t) r) as [->|Hne].
      * rewrite count_remove1_eq. lia.
      * rewrite count_remove1_neq by congruence. lia.
Qed.

Theorem C04_snapshots_inv c0 ts s :
  initial_threads ts -> reachable true (init c0 ts) s -> SInv s.
Proof.
  intros Hts Hr.
  cut (inv_mutex s /\ inv_fresh s /\ SInv s); [tauto|]. revert s Hr.
  apply (reachable_ind_inv true (fun s => inv_mutex s /\ inv_fresh s /\ SInv s)).
  - split; [|split]; [apply inv_mutex_init | apply inv_fresh_init | apply SInv_init]; exact Hts.
  - intros s1 i s1' (IM & IF & HS) Hst.
    split; [eapply inv_mutex_step; eauto|]. split; [eapply inv_fresh_step; eauto|].
    eapply SInv_step; eauto.
Qed.

Lemma SInv_snapshots_ok s : SInv s -> snapshots_ok s.
Proof.
  intros HS i t Hi Ha. apply (si_cl_rd _ HS).
  assert (Hc : 1 <= cnt (t_hdr t) (threads s)).
  { eapply cnt_pos; eauto. unfold act. rewrite Ha, Nat.eqb_refl. reflexivity. }
  rewrite <- (si_count _ HS) in Hc.
  apply (count_occ_In Nat.eq_dec). lia.
Qed.

Theorem C04_snapshots : forall c0 ts s,
  initial_threads ts -> reachable true (init c0 ts) s -> snapshots_ok s.
Proof. intros c0 ts s Hts Hr. apply SInv_snapshots_ok. eapply C04_snapshots_inv; eauto. Qed.

(* ------------------------------------------------------------------ *)
(* 5. C09_progress (deadlock freedom)                                  *)
(* ------------------------------------------------------------------ *)

(* pcs at which a reader holds the mmap read lock *)
Definition rd_pc (p : pc) : bool :=
  match p with RLocked | RFl | RHdr | RReg | RMid | REnd => true | _ => false end.

Definition inv_wr (s : cstate) : Prop :=
  forall j, wr s = Some j -> exists t, nth_error (threads s) j = Some t /\ (t_pc t = CGrow2 \/ t_pc t = CGrow3).
Definition inv_rd (s : cstate) : Prop :=
  NoDup (rd s) /\ forall k, In k (rd s) -> exists t, nth_error (threads s) k = Some t /\ rd_pc (t_pc t) = true.

Lemma inv_wr_init c0 ts : inv_wr (init c0 ts).
Proof. intros j H. discriminate. Qed.
Lemma inv_rd_init c0 ts : inv_rd (init c0 ts).
Proof. split; simpl; [constructor|tauto]. Qed.

Lemma inv_wr_step ab s i s' : inv_wr s -> step ab s i = Some s' -> inv_wr s'.
Proof.
  intros IH H. step_cases H t Hi Hpc; intros j Hw; simpl in *; try discriminate Hw;
    try (injection Hw as <-; eexists; split; [eapply nth_set_same; eauto | simpl; auto]; fail);
    destruct (IH _ Hw) as (tj & Hj & Hp);
    (destruct (Nat.eq_dec j i) as [->|Hne];
     [ rewrite Hi in Hj; injection Hj as <-; rewrite Hpc in Hp; eexists;
       split; [eapply nth_set_same; eauto | simpl; intuition congruence]
     | exists tj; split; [rewrite nth_set_neq by exact Hne; exact Hj | exact Hp] ]).
Qed.

Lemma inv_rd_step ab s i s' : inv_rd s -> step ab s i = Some s' -> inv_rd s'.
Proof.
  intros [ND IH] H. step_cases H t Hi Hpc; (split; [ | intros k Hk ]); simpl in *.
  all: try (exfalso; exact Hk).
  all: try exact ND.
  all: try (apply NoDup_remove1; exact ND).
  all: try (constructor;
            [ intros Hin; destruct (IH _ Hin) as (tk & Hk & Hp); rewrite Hi in Hk; injection Hk as <-;
              rewrite Hpc in Hp; discriminate Hp
            | exact ND ]).
  all: destruct (Nat.eq_dec k i) as [->|Hne];
    [ eexists; split; [eapply nth_set_same; eauto|]; simpl; try reflexivity;
      try (exfalso; eapply NoDup_remove1_notin; eauto; fail);
      exfalso;
      assert (Hk0 : In i (rd s))
        by first [ exact Hk | contradiction | destruct Hk as [E|Hk]; [congruence | exact Hk] ];
      destruct (IH _ Hk0) as (tk & Hk' & Hp); rewrite Hi in Hk'; injection Hk' as <-;
      rewrite Hpc in Hp; discriminate Hp
    | assert (Hk0 : In k (rd s))
        by first [ exact Hk | contradiction | apply In_remove1 in Hk; exact Hk
                 | destruct Hk as [E|Hk]; [congruence | exact Hk] ];
      destruct (IH _ Hk0) as (tk & Hk' & Hp); exists tk;
      split; [rewrite nth_set_neq by exact Hne; exact Hk' | exact Hp] ].
Qed.

Record PInv (s : cstate) : Prop := {
  pi_mutex : inv_mutex s; pi_holder : inv_holder s; pi_wr : inv_wr s; pi_rd : inv_rd s
}.

Theorem C09_progress_inv ab c0 ts s :
  initial_threads ts -> reachable ab (init c0 ts) s -> PInv s.
Proof.
  intros Hts. apply (reachable_ind_inv ab PInv).
  - constructor; [apply inv_mutex_init; exact Hts | apply inv_holder_init | apply inv_wr_init | apply inv_rd_init].
  - intros s1 i s1' [IM IH IW IR] Hst.
    constructor; [eapply inv_mutex_step | eapply inv_holder_step | eapply inv_wr_step | eapply inv_rd_step]; eauto.
Qed.

(* the guard of thread t's next step *)
Definition guard (s : cstate) (t : thread) : Prop :=
  match t_pc t with
  | RStart => wr s = None
  | WStart => fileM s = None
  | CGrow1 => rd s = [] /\ wr s = None
  | RDone | WDone => False
  | _ => True
  end.

Lemma enabled_of_guard ab s i t :
  nth_error (threads s) i = Some t -> guard s t -> exists s', step ab s i = Some s'.
Proof.
  intros Hi Hg. unfold step, guard in *. rewrite Hi.
  destruct (t_pc t); destruct ab; try contradiction; eauto.
  all: try (rewrite Hg; eauto; fail).
  all: destruct Hg as [Hg1 Hg2]; rewrite Hg1, Hg2; eauto.
Qed.

Lemma forallb_false {A} (f : A -> bool) l : forallb f l = false -> exists x, In x l /\ f x = false.
Proof.
  induction l as [|y l IH]; simpl; [discriminate|].
  destruct (f y) eqn:E; simpl.
  - intros H. destruct (IH H) as (x & Hx & Hf). eauto.
  - intros _. eauto.
Qed.

Lemma PInv_progress ab s : PInv s -> all_done s = false -> some_enabled ab s.
Proof.
  intros [IM IH IW [ND IR]] Hnd. unfold some_enabled.
  destruct (fileM s) as [h|] eqn:Hf.
  - (* the holder of fileM, or whoever blocks its mmap write lock, can move *)
    destruct (IH _ Hf) as (th & Hh & Hsec).
    destruct (wr s) as [j|] eqn:Hwr.
    { destruct (IW _ Hwr) as (tj & Hj & Hp). exists j. eapply enabled_of_guard; eauto.
      unfold guard. destruct Hp as [-> | ->]; exact I. }
    destruct (rd s) as [|k rest] eqn:Hrd.
    { exists h. eapply enabled_of_guard; eauto. unfold guard.
      destruct (t_pc th); try discriminate Hsec; auto. }
    destruct (IR k) as (tk & Hk & Hp); [left; reflexivity|].
    exists k. eapply enabled_of_guard; eauto. unfold guard.
    destruct (t_pc tk); try discriminate Hp; exact I.
  - (* nobody holds fileM: any unfinished thread can move *)
    apply forallb_false in Hnd. destruct Hnd as (t & Hin & Hfin).
    apply In_nth_error in Hin. destruct Hin as [k Hk].
    assert (Hnosec : in_writer_section (t_pc t) = false).
    { destruct (in_writer_section (t_pc t)) eqn:E; auto.
      pose proof (IM _ _ Hk E). congruence. }
    assert (Hwr : wr s = None).
    { destruct (wr s) as [j|] eqn:Hwr; auto.
      destruct (IW _ Hwr) as (tj & Hj & Hp).
      assert (fileM s = Some j) by (apply (IM _ _ Hj); destruct Hp as [-> | ->]; reflexivity).
      congruence. }
    exists k. eapply enabled_of_guard; eauto. unfold guard.
    destruct (t_pc t); try discriminate Hnosec; try discriminate Hfin; auto.
Qed.

Theorem C09_progress : forall ab c0 ts s,
  initial_threads ts -> reachable ab (init c0 ts) s -> all_done s = false -> some_enabled ab s.
Proof. intros ab c0 ts s Hts Hr Hnd. eapply PInv_progress; eauto. eapply C09_progress_inv; eauto. Qed.

(* the lock-state characterisations used above, as stand-alone facts *)
Theorem C09_rwlock_state : forall ab c0 ts s,
  initial_threads ts -> reachable ab (init c0 ts) s ->
  (forall j, wr s = Some j -> exists t, nth_error (threads s) j = Some t /\ (t_pc t = CGrow2 \/ t_pc t = CGrow3)) /\
  NoDup (rd s) /\
  (forall k, In k (rd s) -> exists t, nth_error (threads s) k = Some t /\ rd_pc (t_pc t) = true).
Proof.
  intros ab c0 ts s Hts Hr. destruct (C09_progress_inv _ _ _ _ Hts Hr) as [_ _ IW [ND IR]]. auto.
Qed.

(* ------------------------------------------------------------------ *)
Print Assumptions C09_mutex.
Print Assumptions C09_mutex_holder.
Print Assumptions C04_snapshots.
Print Assumptions C04_fresh.
Print Assumptions C04_fresh_register.
Print Assumptions C04_cur_monotone.
Print Assumptions C09_fresh_writer.
Print Assumptions C09_commit_increments.
Print Assumptions C09_commit_header.
Print Assumptions C09_progress.
Print Assumptions C09_rwlock_state.
Print Assumptions C04_legacy_refuted.
Print Assumptions C04_legacy_refuted'.
Print Assumptions ex_repaired_ok.
Print Assumptions ex_all_done_true.
Print Assumptions ex_interleaved_done.
