(* COPY-ON-WRITE of the engine model's transactions (the premise of the crash theorems of C02, proved for the
   model instead of being only checked on the library's hook events).

   A transaction [run_tx st ops ord = Ok st'] WRITES the page runs of its final write set [wr s4]
   ([d_disk st' = apply_wr (wr s4) (d_psz st) (d_disk st)], every entry (q, v) standing for the run
   [wrun P q v] = head page q and its overflow pages) and the run of the new free-list page
   [d_fl st', d_fl st' + d_fln st').  Proved here, for every state satisfying the invariant [db_okz]:
     - no written page belongs to [live_of st (Rof st)] = the page runs reachable from the header that is
       current before the commit, and its free-list run                                   ([run_tx_cow])
     - every written page was free after [begin_w]'s release or lies beyond the old high-water mark
                                                                                          ([run_tx_writes_from_free])
     - the pages of the previous snapshot are byte-identical on the new disk, and a reader of the previous
       header sees the previous contents                                                   ([old_snapshot_intact])
     - the premise [commit_setting] of the crash theorems (CrashFacts / CrashCurrent) holds for the engine's
       commit                                                                              ([engine_commit_setting]).
   None of the first three needs [readable st']. *)
From Coq Require Import List NArith Bool Arith Lia ZifyN ZifyNat ZifyBool Permutation.
From Coq.Strings Require Import Byte.
From Jamm Require Spec.
From Jamm Require Import Bytes BytesFacts Tree Cursor SearchFacts Engine EngineAbs EngineFacts EngineMergeFacts.
From Jamm Require Import EngineModifyFacts EngineSpillFacts EnginePathFacts EngineBridgeFacts EngineRebalanceFacts.
From Jamm Require FreelistFacts EngineAllocFacts EngineSpillWfFacts.
From Jamm Require Import EngineTxInvFacts EngineSpillBucketFacts EngineRefines.
Import ListNotations.
Import Coq.Strings.String.StringSyntax. Delimit Scope string_scope with string.
Local Open Scope list_scope. Local Open Scope nat_scope.
Set Warnings "-abstract-large-number".
Arguments N.add : simpl never. Arguments N.sub : simpl never. Arguments N.mul : simpl never.
Arguments N.div : simpl never. Arguments N.ltb : simpl never. Arguments N.leb : simpl never.
Arguments N.eqb : simpl never.

From Jamm Require Import EngineOwnDefs EngineOwnWr EngineOwnOps EngineOwnReb EngineOwnSpill EngineOwnLnk EngineAllocInv.

(* ====================================================================== *)
(** * 1. [commit_states] for ANY protected set containing the live pages *)

(* EngineOwnSpill.commit_states with the set of pages that must not be handed out / written as a parameter [Lx]:
   the layers W1 and W2 are generic in it.  [Lx := live_of st (Rof st)] is the lemma of EngineOwnSpill; a larger
   set gives more: see [held] below. *)
Lemma commit_states_gen : forall st b s ord st' b1 s1 m Lx,
  db_ok' st -> dget (d_disk st) 0%N = None ->
  incl (live_of st (Rof st)) Lx -> fresh_inv Lx s1 ->
  rebalance fuel0 (d_disk st) b s = Ok (b1, s1) ->
  wr s1 = [] -> pend_ids_ok s1 ->
  (forall x, In x (pend_all (pending s1)) -> freed_in_tx s1 x = true) ->
  (forall x, freed_in_tx s1 x = true -> In x (foot (d_disk st) 16 (d_root st))) ->
  SReady (d_disk st) (Rof st) b1 -> OvlAbs (d_disk st) b1 m -> SReadyX (d_disk st) (Rof st) b1 ->
  OwnI (d_disk st) 16 s1 b1 (d_root st) -> Lnk (d_disk st) 16 b1 (d_root st) ->
  commit st b s ord = Ok st' ->
  exists r nx s4 alloc flp fln Dall,
    st' = {| d_disk := apply_wr (wr s4) (psz s4) (d_disk st); d_root := r; d_next := nx; d_np := np s4; d_fl := flp;
             d_fln := fln; d_flids := all_pages s4; d_tx := txid s4; d_free := free s4; d_pending := pending s4;
             d_psz := psz s4 |} /\
    frame Lx s1 s4 (nrun flp fln ++ alloc) Dall /\
    (forall x, In x (nrun flp fln) -> ~ In x (alloc ++ Lx)) /\
    wr_ok Lx s4 /\
    (forall q v x, wr_get (wr s4) q = Some v -> In x (wrun (psz s4) q v) -> ~ In x (nrun flp fln)) /\
    TreeOK (d_disk st) 16 alloc (foot (d_disk st) 16 (d_root st)) s4 r.
Proof.
  intros st b s ord st' b1 s1 m Lx (Hstrict & HA & HndL & _) Hz HLx Hfi Hreb Hwr Hpid Hpf Hff HS HO HSX HOw HLk H.
  set (d := d_disk st) in *. set (R := Rof st) in *. set (L := live_of st R) in *.
  pose proof HA as (_ & _ & _ & _ & _ & _ & _ & HCR & Hlive).
  assert (HkL : forall q x, In q R -> In x (prun d q) -> In x Lx).
  { intros q x Hq Hx. apply HLx. unfold L, live_of. apply in_or_app. left. apply in_flat_map. eauto. }
  assert (HfL : incl (foot d 16 (d_root st)) Lx) by (intros x Hx; apply HLx; now apply foot_live).
  rewrite commit_apply_wr in H. unfold commit_with_apply_wr in H. fold d in H. rewrite Hreb in H. cbn [bind] in H.
  apply bind_ok_inv in H. destruct H as ([[[r nx] s2] ord'] & Hsp & H).
  assert (Hp0 : pend_ok0 s1).
  { intros x Hx. apply (fi_live _ _ Hfi), HfL, Hff, Hpf, Hx. }
  assert (H16 : 16 <= fuel0) by (unfold fuel0; lia).
  assert (Hu : unwritten R s1) by (intros x _; rewrite Hwr; reflexivity).
  pose proof (RecOwn_all d R Lx HCR Hz HkL W1a W1b W1c W1d fuel0 16 Lx b1 s1 ord (r, nx, s2, ord') (d_root st) m H16 Hfi
                (fun x Hx => Hx) Hu
                (wr_ok_nil Lx s1 Hwr) Hp0 Hpid HS HO HSX HOw HLk HfL Hsp) as HP.
  cbn [OwnPost] in HP. destruct HP as (alloc & dead & F1 & Hdl & W2 & P2 & I2 & HW).
  set (s3 := free_pages s2 (d_fl st) (d_fln st)) in H.
  destruct (tx_allocate s3 (40 + 8 * llen (all_pages s3))) as [[flp fln] s4] eqn:Hal.
  inversion H; subst st'. clear H.
  pose proof (fr_fresh _ _ _ _ _ F1) as Hfi2.
  assert (HLa : forall x, In x Lx -> In x (alloc ++ Lx)) by (intros x Hx; apply in_or_app; now right).
  pose proof (free_pages_frame (alloc ++ Lx) s2 (d_fl st) (d_fln st) Hfi2) as G1. fold s3 in G1.
  assert (Hfl : forall x, In x (nrun (d_fl st) (d_fln st)) -> In x Lx).
  { intros x Hx. apply HLx. unfold L, live_of. apply in_or_app. now right. }
  destruct (W1b Lx s2 (d_fl st) (d_fln st) (fresh_inv_sub _ _ _ HLa Hfi2) W2 P2 I2 Hfl) as (W3 & P3 & I3). fold s3 in W3, P3, I3.
  assert (Hpos : (0 < 40 + 8 * llen (all_pages s3))%N) by lia.
  pose proof (fr_fresh _ _ _ _ _ G1) as Hfi3. cbn [app] in Hfi3.
  destruct (tx_allocate_frame (alloc ++ Lx) s3 _ flp fln s4 Hfi3 Hpos Hal) as [G2 G3].
  destruct (W1c Lx s3 _ flp fln s4 (fresh_inv_sub _ _ _ HLa Hfi3) W3 P3 I3 Hpos Hal) as (W4 & P4 & I4 & Hsep).
  pose proof (frame_trans _ _ _ _ _ _ _ _ G1 G2) as G4. rewrite !app_nil_r in G4.
  pose proof (frame_trans _ _ _ _ _ _ _ _ F1 G4) as F14.
  exists r, nx, s4, alloc, flp, fln, (dead ++ nrun (d_fl st) (d_fln st)). fold d R L.
  split; [reflexivity|]. split; [exact F14|].
  split; [intros x Hx; apply G3; now apply In_nrun|].
  split; [exact W4|]. split; [exact Hsep|].
  apply (HW s4 _ _ G4); [|exact W4]. intros x Hx. split.
  - intros Hi. apply (frame_new _ _ _ _ _ x Hfi F1 Hi). now apply Hfl.
  - intros Hi. exact (foot_fl_disj st x HndL Hi Hx).
Qed.

(* ====================================================================== *)
(** * 2. The protected set of a transaction: every page that [begin_w] does not offer for allocation *)

(* the pages below the old high-water mark that are not free after [begin_w]'s release: the live pages, the
   pending pages that stay pending, leaked pages, and pages 0 and 1 *)
Definition held (st : db) : list N :=
  filter (fun x => negb (memb x (free (begin_w st)))) (nrun 0 (d_np st)).

Lemma In_held : forall st x, In x (held st) <-> (x < d_np st)%N /\ ~ In x (free (begin_w st)).
Proof.
  intros st x. unfold held. rewrite filter_In, In_nrun, negb_true_iff. split.
  - intros [A B]. split; [lia|]. now apply memb_false.
  - intros [A B]. split; [lia|]. destruct (memb x (free (begin_w st))) eqn:E; [|reflexivity].
    exfalso. apply B. now apply memb_In.
Qed.

Lemma not_held : forall st x, ~ In x (held st) -> In x (free (begin_w st)) \/ (d_np st <= x)%N.
Proof.
  intros st x H. destruct (N.lt_ge_cases x (d_np st)) as [Hlt|Hge]; [|now right]. left.
  destruct (in_dec N.eq_dec x (free (begin_w st))) as [Hi|Hn]; [exact Hi|]. exfalso. apply H. apply In_held. auto.
Qed.

(* the final allocator state of a completed transaction: everything [commit_states_gen] says, for [Lx := held st] *)
Lemma run_tx_final : forall st ops ord st', db_okz st -> Forall (op_ok (d_disk st)) ops ->
  run_tx st ops ord = Ok st' ->
  incl (live_of st (Rof st)) (held st) /\
  exists s1 r nx s4 alloc flp fln Dall,
    free s1 = free (begin_w st) /\ np s1 = d_np st /\ psz s1 = d_psz st /\ txid s1 = (d_tx st + 1)%N /\
    st' = {| d_disk := apply_wr (wr s4) (psz s4) (d_disk st); d_root := r; d_next := nx; d_np := np s4; d_fl := flp;
             d_fln := fln; d_flids := all_pages s4; d_tx := txid s4; d_free := free s4; d_pending := pending s4;
             d_psz := psz s4 |} /\
    frame (held st) s1 s4 (nrun flp fln ++ alloc) Dall /\
    (forall x, In x (nrun flp fln) -> ~ In x (alloc ++ held st)) /\
    wr_ok (held st) s4 /\
    (forall q v x, wr_get (wr s4) q = Some v -> In x (wrun (psz s4) q v) -> ~ In x (nrun flp fln)) /\
    TreeOK (d_disk st) 16 alloc (foot (d_disk st) 16 (d_root st)) s4 r.
Proof.
  intros st ops ord st' [Hok' Hz] Hops Hrun.
  pose proof (db_ok'_db_ok st Hok') as Hok. pose proof Hok' as (Hdb & HA & Hnd & Hpl).
  set (R := Rof st) in *.
  destruct (run_tx_rebalance_ready st ops ord st' Hdb Hops Hrun)
    as (root' & s' & b1r & s1r & fv & v & Hf & _ & _ & Hfr & [f HSD] & Hrr & _ & _ & _ & Tx & _).
  destruct (run_tx_commit_ready st R ops ord st' Hdb HA Hops Hrun)
    as (root2 & s2' & b1 & s1 & Hf2 & Hc & Hr & _ & _ & Hfi & Hwr & HS & HO).
  rewrite Hf in Hf2. inversion Hf2; subst root2 s2'. rewrite Hrr in Hr. inversion Hr; subst b1r s1r.
  pose proof HA as (_ & _ & _ & _ & _ & _ & _ & HC & _).
  assert (HSX : SReadyX (d_disk st) R b1).
  { eapply (rebalance_SReadyX (d_disk st) R HC fuel0 f 9); eauto; [unfold fuel0; lia|]. eapply tx_ops_XDF; eauto. }
  destruct (tx_fold_own st ops root' s' Hok' Hf) as (HO1 & HF1 & HI1 & Hb0).
  pose proof (tx_frees_pend_cur _ _ Hb0 Hfr) as HPC1.
  destruct (rebalance_own_missing0 (d_disk st) fuel0 f 16 s' root' (d_root st) b1 s1 Hz HSD HO1 HI1 HPC1 Hrr) as (HO2 & HF2 & HI2 & HPC2).
  destruct Tx as (T1 & T2 & T3 & T4 & _). destruct Hfr as (F1 & F2 & F3 & F4 & _).
  destruct (begin_w_fields st) as (_ & Enp & Epsz).
  assert (Efree : free s1 = free (begin_w st)) by congruence.
  assert (Enp1 : np s1 = d_np st) by congruence.
  assert (Epsz1 : psz s1 = d_psz st) by congruence.
  assert (Etx : txid s1 = (d_tx st + 1)%N) by (rewrite T2, F2; apply begin_w_txid).
  assert (HF2' : forall x, freed_in_tx s1 x = true -> In x (foot (d_disk st) 16 (d_root st))).
  { intros x Hx. destruct (HF2 x Hx) as [A|A]; [now apply HF1 | exact A]. }
  pose proof (run_Lnk st ops root' s' b1 s1 Hok' Hops Hf Hrr) as HL.
  assert (HLx : incl (live_of st R) (held st)).
  { intros x Hx. apply In_held. destruct (fi_live _ _ Hfi x Hx) as [A B]. rewrite <- Enp1, <- Efree. auto. }
  assert (HfiX : fresh_inv (held st) s1).
  { destruct Hfi as [G1 G2 G3 G4 G5 G6]. constructor; try assumption.
    intros x Hx. apply In_held in Hx. rewrite Enp1, Efree. exact Hx. }
  split; [exact HLx|].
  destruct (commit_states_gen st root' s' ord st' b1 s1 _ (held st) Hok' Hz HLx HfiX Hrr Hwr HI2 HPC2 HF2' HS HO HSX HO2 HL Hc)
    as (r & nx & s4 & alloc & flp & fln & Dall & Est & F14 & Hfnew & W4 & Hsep & HT).
  exists s1, r, nx, s4, alloc, flp, fln, Dall. repeat (split; [assumption|]). exact HT.
Qed.

(* ====================================================================== *)
(** * 3. The pages written by a transaction *)

(* the pages of a write set: for every head page q with a current entry v, the run of q (head and overflow pages) *)
Definition wr_pages (P : N) (w : list (N * (N * ndata))) : list N :=
  flat_map (fun q => match wr_get w q with Some v => wrun P q v | None => [] end) (map fst w).

Lemma wr_get_head : forall w q v, wr_get w q = Some v -> In q (map fst w).
Proof.
  intros w q v H. unfold wr_get in H. destruct (find (fun x => (fst x =? q)%N) w) as [e|] eqn:E; [|discriminate].
  apply find_some in E. destruct E as [Hin He]. apply N.eqb_eq in He. subst q. now apply in_map.
Qed.

Lemma In_wr_pages : forall P w x, In x (wr_pages P w) <-> exists q v, wr_get w q = Some v /\ In x (wrun P q v).
Proof.
  intros P w x. unfold wr_pages. rewrite in_flat_map. split.
  - intros (q & _ & Hx). destruct (wr_get w q) as [v|] eqn:E; [|destruct Hx]. eauto.
  - intros (q & v & Hg & Hx). exists q. split; [eapply wr_get_head; eauto|]. now rewrite Hg.
Qed.

(* the run of an entry in terms of Freelist.pages_for: at least one page *)
Lemma wrun_pages_for_max : forall P q sz dd, wrun P q (sz, dd) = nrun q (N.max 1 (Freelist.pages_for P sz)).
Proof.
  intros P q sz dd. unfold wrun, mk_apage, Freelist.pages_for. cbn [fst snd ap_over]. f_equal.
  destruct (sz mod P =? 0)%N; lia.
Qed.

(* what a commit writes: the page runs of its write set w and the run of its new free-list page *)
Definition written (st st' : db) (w : list (N * (N * ndata))) (x : N) : Prop :=
  In x (wr_pages (d_psz st) w) \/ In x (nrun (d_fl st') (d_fln st')).

(* [w] is the write set of a commit that leads from st to st', and the commit is copy-on-write *)
Record tx_cow (st st' : db) (w : list (N * (N * ndata))) : Prop := {
  tc_disk : d_disk st' = apply_wr w (d_psz st) (d_disk st);
  tc_psz : d_psz st' = d_psz st;
  tc_tx : d_tx st' = (d_tx st + 1)%N;
  tc_np : (d_np st <= d_np st')%N;
  (* copy-on-write: no written page is reachable from the old header or lies in the old free-list run *)
  tc_cow : forall x, written st st' w x -> ~ In x (live_of st (Rof st));
  (* every written page was free after begin_w's release, or is beyond the old high-water mark *)
  tc_src : forall x, written st st' w x -> In x (free (begin_w st)) \/ (d_np st <= x)%N;
  tc_range : forall x, written st st' w x -> (2 <= x < d_np st')%N;
  (* afterwards it is neither free nor pending *)
  tc_taken : forall x, written st st' w x -> ~ In x (d_free st');
  (* two entries of the write set do not overlap; none overlaps the new free-list run *)
  tc_disj : forall q1 v1 q2 v2 x, wr_get w q1 = Some v1 -> wr_get w q2 = Some v2 ->
              In x (wrun (d_psz st) q1 v1) -> In x (wrun (d_psz st) q2 v2) -> q1 = q2;
  tc_fl : forall x, In x (wr_pages (d_psz st) w) -> ~ In x (nrun (d_fl st') (d_fln st')) }.

(* the write set of a transaction: copy-on-write, and (for a readable new state) every page of the NEW snapshot was
   written by this commit or belonged to the previous snapshot *)
Lemma run_tx_write_set_new : forall st ops ord st', db_okz st -> Forall (op_ok (d_disk st)) ops ->
  run_tx st ops ord = Ok st' ->
  exists w, tx_cow st st' w /\
    (readable st' -> forall x, In x (live_of st' (Rof st')) -> written st st' w x \/ In x (live_of st (Rof st))).
Proof.
  intros st ops ord st' Hok Hops Hrun.
  destruct (run_tx_final st ops ord st' Hok Hops Hrun)
    as (HLx & s1 & r & nx & s4 & alloc & flp & fln & Dall & Efree & Enp & Epsz & Etx & Est & F14 & Hfnew & W4 & Hsep & HT).
  assert (Ep4 : psz s4 = d_psz st) by (rewrite (fr_psz _ _ _ _ _ F14); exact Epsz).
  pose proof (fr_fresh _ _ _ _ _ F14) as Hfi4.
  destruct Hok as [(_ & HA & _) _]. pose proof (begin_w_fresh st (Rof st) HA) as Hfi0.
  assert (Hge2 : forall x, ~ In x (held st) -> (2 <= x)%N).
  { intros x Hx. destruct (not_held st x Hx) as [Hf|Hn].
    - pose proof (fi_ge2 _ _ Hfi0) as G. unfold FreelistFacts.ge2 in G. rewrite Forall_forall in G. now apply G.
    - destruct HA as (_ & G & _). lia. }
  assert (Hw : forall x, written st st' (wr s4) x ->
            ~ In x (held st) /\ (2 <= x < np s4)%N /\ ~ In x (free s4)).
  { intros x [Hx|Hx].
    - apply In_wr_pages in Hx. destruct Hx as (q & v & Hg & Hx). rewrite <- Ep4 in Hx.
      destruct (wo_range _ _ W4 q v x Hg Hx) as (R1 & R2 & R3). auto.
    - subst st'. cbn [d_fl d_fln] in Hx.
      assert (Hnh : ~ In x (held st)) by (intros Hi; apply (Hfnew x Hx); apply in_or_app; now right).
      assert (Hi4 : In x ((nrun flp fln ++ alloc) ++ held st)) by (apply in_or_app; left; apply in_or_app; now left).
      destruct (fi_live _ _ Hfi4 x Hi4) as [A1 A2]. split; [exact Hnh|]. split; [|exact A2]. split; [now apply Hge2 | exact A1]. }
  exists (wr s4). split.
  2:{ intros Hrd x Hx. subst st'. unfold readable in Hrd. cbn [d_disk d_root] in Hrd.
      destruct (HT Hrd) as [_ Hloc]. unfold live_of at 1 in Hx. unfold Rof at 1 in Hx.
      cbn [d_disk d_root d_fl d_fln] in Hx. apply in_app_or in Hx. destruct Hx as [Hx|Hx]; [|left; right; exact Hx].
      destruct (Hloc x Hx) as [[(q & v & _ & Hg & Hr)|Hf] _].
      - left. left. apply In_wr_pages. exists q, v. rewrite <- Ep4. auto.
      - right. now apply foot_live. }
  constructor.
  - subst st'. cbn [d_disk]. now rewrite Ep4.
  - subst st'. exact Ep4.
  - subst st'. cbn [d_tx]. rewrite (fr_txid _ _ _ _ _ F14). exact Etx.
  - subst st'. cbn [d_np]. rewrite <- Enp. exact (fr_np _ _ _ _ _ F14).
  - intros x Hx Hl. apply (proj1 (Hw x Hx)). apply HLx, Hl.
  - intros x Hx. apply not_held. apply (proj1 (Hw x Hx)).
  - intros x Hx. destruct (Hw x Hx) as (_ & A & _). subst st'. exact A.
  - intros x Hx. destruct (Hw x Hx) as (_ & _ & A). subst st'. exact A.
  - intros q1 v1 q2 v2 x G1 G2 X1 X2. rewrite <- Ep4 in X1, X2. exact (wo_disj _ _ W4 q1 v1 q2 v2 x G1 G2 X1 X2).
  - intros x Hx. apply In_wr_pages in Hx. destruct Hx as (q & v & Hg & Hx). rewrite <- Ep4 in Hx.
    subst st'. cbn [d_fl d_fln]. exact (Hsep q v x Hg Hx).
Qed.

Theorem run_tx_write_set : forall st ops ord st', db_okz st -> Forall (op_ok (d_disk st)) ops ->
  run_tx st ops ord = Ok st' -> exists w, tx_cow st st' w.
Proof.
  intros st ops ord st' Hok Hops Hrun. destruct (run_tx_write_set_new st ops ord st' Hok Hops Hrun) as (w & C & _). eauto.
Qed.

(* ====================================================================== *)
(** * 4. The statements: copy-on-write, origin of the written pages *)

(* (1) COPY-ON-WRITE.  The new disk is the old disk overwritten with the write set w; the whole run (head page
   and overflow pages) of every entry of w, and the run of the new free-list page, avoid every page run
   reachable from the old header and the old free-list run.  [readable st'] is not needed. *)
Theorem run_tx_cow : forall st ops ord st', db_okz st -> Forall (op_ok (d_disk st)) ops ->
  run_tx st ops ord = Ok st' ->
  exists w, d_disk st' = apply_wr w (d_psz st) (d_disk st) /\
    (forall q v, wr_get w q = Some v ->
       dget (d_disk st') q = Some (mk_apage (d_psz st) v) /\ prun (d_disk st') q = wrun (d_psz st) q v /\
       forall x, In x (wrun (d_psz st) q v) -> ~ In x (live_of st (Rof st))) /\
    (forall x, In x (nrun (d_fl st') (d_fln st')) -> ~ In x (live_of st (Rof st))).
Proof.
  intros st ops ord st' Hok Hops Hrun. destruct (run_tx_write_set st ops ord st' Hok Hops Hrun) as [w C].
  exists w. split; [exact (tc_disk _ _ _ C)|]. split.
  - intros q v Hg. rewrite (tc_disk _ _ _ C). split; [now apply dget_apply_wr_some|]. split; [now apply prun_written|].
    intros x Hx. apply (tc_cow _ _ _ C). left. apply In_wr_pages. eauto.
  - intros x Hx. apply (tc_cow _ _ _ C). now right.
Qed.

(* the same without the write set: a page whose image on the new disk differs from the old one is not live, and
   neither is any page of its new run *)
Corollary run_tx_changed_not_live : forall st ops ord st', db_okz st -> Forall (op_ok (d_disk st)) ops ->
  run_tx st ops ord = Ok st' ->
  forall q, dget (d_disk st') q <> dget (d_disk st) q ->
    forall x, In x (prun (d_disk st') q) -> ~ In x (live_of st (Rof st)).
Proof.
  intros st ops ord st' Hok Hops Hrun q Hq x Hx.
  destruct (run_tx_cow st ops ord st' Hok Hops Hrun) as (w & Ed & Hw & _).
  destruct (wr_get w q) as [v|] eqn:Hg.
  - destruct (Hw q v Hg) as (_ & Er & Hn). rewrite Er in Hx. now apply Hn.
  - exfalso. apply Hq. rewrite Ed. now apply dget_apply_wr_none.
Qed.

(* (3) ORIGIN.  Every written page (overflow pages and the new free-list run included) is beyond the old
   high-water mark or was on the free list after [begin_w]'s release -- in particular it was not referenced by
   the old header -- and lies in [2, d_np st'). *)
Theorem run_tx_writes_from_free : forall st ops ord st', db_okz st -> Forall (op_ok (d_disk st)) ops ->
  run_tx st ops ord = Ok st' ->
  exists w, d_disk st' = apply_wr w (d_psz st) (d_disk st) /\
    forall x, written st st' w x ->
      ((d_np st <= x)%N \/ In x (free (begin_w st))) /\ ~ In x (live_of st (Rof st)) /\ (2 <= x < d_np st')%N.
Proof.
  intros st ops ord st' Hok Hops Hrun. destruct (run_tx_write_set st ops ord st' Hok Hops Hrun) as [w C].
  exists w. split; [exact (tc_disk _ _ _ C)|]. intros x Hx.
  split; [destruct (tc_src _ _ _ C x Hx); auto|]. split; [exact (tc_cow _ _ _ C x Hx) | exact (tc_range _ _ _ C x Hx)].
Qed.

(* what [begin_w] releases was free or pending in the committed state: a written page below the old high-water
   mark was free or pending there *)
Corollary run_tx_writes_from_free_or_pending : forall st ops ord st', db_okz st -> Forall (op_ok (d_disk st)) ops ->
  run_tx st ops ord = Ok st' ->
  exists w, d_disk st' = apply_wr w (d_psz st) (d_disk st) /\
    forall x, written st st' w x ->
      (d_np st <= x)%N \/ In x (d_free st) \/ In x (pend_all (d_pending st)).
Proof.
  intros st ops ord st' Hok Hops Hrun. destruct (run_tx_write_set st ops ord st' Hok Hops Hrun) as [w C].
  exists w. split; [exact (tc_disk _ _ _ C)|]. intros x Hx.
  destruct (tc_src _ _ _ C x Hx) as [Hf|Hn]; [|now left]. right.
  destruct Hok as [(_ & HA & _) _]. destruct HA as (_ & _ & Hasc & _).
  unfold begin_w in Hf. destruct (release (d_tx st + 1) (d_free st) (d_pending st)) as [fr pd] eqn:Er.
  cbn [free] in Hf. destruct (release_src _ _ _ _ _ Er Hasc) as [_ B]. exact (B x Hf).
Qed.

(* ====================================================================== *)
(** * 5. The previous snapshot is intact on the new disk *)

(* the meaning of a bucket whose pages lie in a closed set is the same on every disk that agrees on the set *)
Lemma abs_bucket_kept : forall d d' keep, closedR d keep -> (forall x, In x keep -> dget d' x = dget d x) ->
  forall n r nx, In r keep -> abs_bucket n d' r nx = abs_bucket n d r nx.
Proof.
  intros d d' keep HC Hag. induction n as [|n IH]; intros r nx Hr; [reflexivity|]. rewrite !abs_bucket_S.
  assert (Hsub : forall x, in_subtree d r x -> dget d' x = dget d x).
  { intros x Hx. apply Hag. eapply closed_subtree; eauto. }
  rewrite (page_ents_transfer d d' 64 r Hsub). f_equal. apply map_ext_in. intros [k v|k r' nx'] He; [reflexivity|].
  cbn [ent_abs]. f_equal. apply IH. eapply page_ents_closed; eauto.
Qed.

(* (2) every page of the previous snapshot -- each page of each run reachable from the old header, and the old
   free-list run -- has the same image on the new disk; the old header's page set, its page runs and its meaning
   are unchanged: a reader that holds the previous header sees the previous contents after the commit *)
Theorem old_snapshot_intact : forall st ops ord st', db_okz st -> Forall (op_ok (d_disk st)) ops ->
  run_tx st ops ord = Ok st' ->
  (forall p, In p (live_of st (Rof st)) -> dget (d_disk st') p = dget (d_disk st) p) /\
  (forall p, In p (Rof st) -> dget (d_disk st') p = dget (d_disk st) p) /\
  fpg 16 (d_disk st') (d_root st) = Rof st /\
  runs (d_disk st') (fpg 16 (d_disk st') (d_root st)) = runs (d_disk st) (Rof st) /\
  (forall n, abs_bucket n (d_disk st') (d_root st) (d_next st) = abs_bucket n (d_disk st) (d_root st) (d_next st)) /\
  abs_bucket 16 (d_disk st') (d_root st) (d_next st) = abs_db st.
Proof.
  intros st ops ord st' Hok Hops Hrun. destruct (run_tx_write_set st ops ord st' Hok Hops Hrun) as [w C].
  destruct Hok as [(_ & HA & _) _]. destruct HA as (_ & _ & _ & _ & _ & _ & Hroot & HC & _).
  assert (Hlive : forall p, In p (live_of st (Rof st)) -> dget (d_disk st') p = dget (d_disk st) p).
  { intros p Hp. rewrite (tc_disk _ _ _ C). rewrite dget_apply_wr. destruct (wr_get w p) as [v|] eqn:Hg; [|reflexivity].
    exfalso. apply (tc_cow _ _ _ C p); [|exact Hp]. left. apply In_wr_pages. exists p, v. split; [exact Hg | apply In_wrun_self]. }
  assert (Hag : forall p, In p (Rof st) -> dget (d_disk st') p = dget (d_disk st) p).
  { intros p Hp. apply Hlive. now apply R_live. }
  split; [exact Hlive|]. split; [exact Hag|].
  split; [exact (fpg_kept (d_disk st) (d_disk st') (Rof st) HC Hag 16 (d_root st) Hroot)|].
  split; [exact (runs_fpg_kept (d_disk st) (d_disk st') (Rof st) HC Hag 16 (d_root st) Hroot)|].
  split; [intros n; exact (abs_bucket_kept (d_disk st) (d_disk st') (Rof st) HC Hag n (d_root st) (d_next st) Hroot)|].
  exact (abs_bucket_kept (d_disk st) (d_disk st') (Rof st) HC Hag 16 (d_root st) (d_next st) Hroot).
Qed.

(* the state a reader of the previous header works with after the commit: the old header over the new disk *)
Definition old_view (st st' : db) : db :=
  {| d_disk := d_disk st'; d_root := d_root st; d_next := d_next st; d_np := d_np st; d_fl := d_fl st; d_fln := d_fln st;
     d_flids := d_flids st; d_tx := d_tx st; d_free := d_free st; d_pending := d_pending st; d_psz := d_psz st |}.

Corollary old_view_abs : forall st ops ord st', db_okz st -> Forall (op_ok (d_disk st)) ops ->
  run_tx st ops ord = Ok st' ->
  abs_db (old_view st st') = abs_db st /\ Rof (old_view st st') = Rof st /\
  live_of (old_view st st') (Rof (old_view st st')) = live_of st (Rof st).
Proof.
  intros st ops ord st' Hok Hops Hrun.
  destruct (old_snapshot_intact st ops ord st' Hok Hops Hrun) as (_ & _ & E1 & E2 & _ & E3).
  split; [exact E3|]. split; [exact E1|]. unfold live_of, Rof, old_view. cbn [d_disk d_root d_fl d_fln].
  f_equal. exact E2.
Qed.

(* the previous header still names a strict tree on the new disk *)
Corollary old_view_strict : forall st ops ord st', db_okz st -> Forall (op_ok (d_disk st)) ops ->
  run_tx st ops ord = Ok st' -> Strict (d_disk st') (d_root st).
Proof.
  intros st ops ord st' Hok Hops Hrun.
  destruct (old_snapshot_intact st ops ord st' Hok Hops Hrun) as (_ & Hag & _).
  destruct Hok as [(Hstrict & HA & _) _]. destruct HA as (_ & _ & _ & _ & _ & _ & Hroot & HC & _).
  apply (kept_Strict (d_disk st) (d_disk st') (Rof st) Hag 16 (d_root st) Hstrict).
  exact (closed_ckept (d_disk st) (Rof st) HC 16 (d_root st) Hstrict Hroot).
Qed.

(* ====================================================================== *)
(** * 6. The premise of the crash theorems (C02 / C11) holds for the engine's commit *)

From Jamm Require Crash CrashFacts CrashCurrent.

(* the header of a committed engine state in the vocabulary of model/Crash.v: its transaction id and the pages
   its snapshot consists of (tree page runs + free-list run) *)
Definition eng_header (st : db) : Crash.header := Crash.mkHeader (d_tx st) (live_of st (Rof st)).

(* the data pages a commit writes, each once *)
Definition tx_written (st st' : db) (w : list (N * (N * ndata))) : list N :=
  nodup N.eq_dec (wr_pages (d_psz st) w ++ nrun (d_fl st') (d_fln st')).

Lemma In_tx_written : forall st st' w x, In x (tx_written st st' w) <-> written st st' w x.
Proof. intros st st' w x. unfold tx_written, written. rewrite nodup_In, in_app_iff. tauto. Qed.

(* [CrashFacts.commit_setting] -- select / ids increase / COPY-ON-WRITE [cs_cow] / the new snapshot consists of
   written and old pages [cs_new] / no page written twice -- for every crash-model disk whose current header is
   the header of st *)
Theorem engine_commit_setting : forall st ops ord st', db_okz st -> Forall (op_ok (d_disk st)) ops ->
  run_tx st ops ord = Ok st' -> readable st' ->
  exists w, tx_cow st st' w /\
    forall cd : Crash.disk, Crash.select cd = Some (eng_header st) ->
      CrashFacts.commit_setting cd (eng_header st) (eng_header st') (d_tx st') (tx_written st st' w).
Proof.
  intros st ops ord st' Hok Hops Hrun Hrd.
  destruct (run_tx_write_set_new st ops ord st' Hok Hops Hrun) as (w & C & Hnew). specialize (Hnew Hrd).
  exists w. split; [exact C|]. intros cd Hsel. constructor.
  - exact Hsel.
  - reflexivity.
  - cbn [Crash.h_tx eng_header]. rewrite (tc_tx _ _ _ C). lia.
  - intros p Hp. cbn [Crash.h_live eng_header]. apply In_tx_written in Hp. exact (tc_cow _ _ _ C p Hp).
  - intros p Hp. cbn [Crash.h_live eng_header] in *. destruct (Hnew p Hp) as [Hw|Hl]; [left; now apply In_tx_written | now right].
  - apply NoDup_nodup.
Qed.

(* hence the crash theorems for the commit order read from the current source apply to the engine's commit:
   power loss at any point leaves the old or the new snapshot selected and intact; a completed commit is durable;
   an I/O fault at any call leaves the old or the new snapshot *)
Corollary engine_commit_crash_safe : forall st ops ord st', db_okz st -> Forall (op_ok (d_disk st)) ops ->
  run_tx st ops ord = Ok st' -> readable st' ->
  exists w, tx_cow st st' w /\
    forall cd : Crash.disk, Crash.select cd = Some (eng_header st) ->
      let cur := eng_header st in let newh := eng_header st' in let t := d_tx st' in
      let wrt := tx_written st st' w in let tgt := negb (Crash.current_slot cd) in
      let ios := Crash.commit_io wrt in
      (forall n fates, CrashFacts.pre_or_post cd cur newh t wrt (Crash.power_image t newh tgt cd ios n fates)) /\
      (forall fates, let img := Crash.power_image t newh tgt cd ios (List.length ios) fates in
         Crash.select img = Some newh /\ Crash.intact (CrashFacts.orig_new cd t wrt) img newh) /\
      (forall k f, CrashFacts.pre_or_post cd cur newh t wrt (Crash.fault_image t newh tgt cd ios k f)).
Proof.
  intros st ops ord st' Hok Hops Hrun Hrd.
  destruct (engine_commit_setting st ops ord st' Hok Hops Hrun Hrd) as (w & C & HS).
  exists w. split; [exact C|]. intros cd Hsel. specialize (HS cd Hsel). cbv zeta.
  split; [|split].
  - intros n fates. now apply CrashCurrent.power_current.
  - intros fates. exact (CrashCurrent.durable_current _ _ _ _ _ HS fates).
  - intros k f. now apply CrashCurrent.fault_current.
Qed.

(* ====================================================================== *)
(** * 7. Examples *)

Module ExCow.
Import Ex3.

(* -- the transaction of Ex3 (14 pages before; a nested bucket with a two-level tree is modified) -- *)
Example ex3_cow : exists w, tx_cow ex3_db Ex3R.ex3_st' w.
Proof. exact (run_tx_write_set ex3_db ex3_ops Ex3R.ex3_ord Ex3R.ex3_st' ex3_db_okz Ex3R.ex3_ops_ok Ex3R.ex3_run_ok). Qed.

Example ex3_old_intact : abs_bucket 16 (d_disk Ex3R.ex3_st') (d_root ex3_db) (d_next ex3_db) = abs_db ex3_db.
Proof.
  exact (proj2 (proj2 (proj2 (proj2 (proj2
    (old_snapshot_intact ex3_db ex3_ops Ex3R.ex3_ord Ex3R.ex3_st' ex3_db_okz Ex3R.ex3_ops_ok Ex3R.ex3_run_ok)))))).
Qed.
(* ... and by evaluation *)
Example ex3_old_intact_eval : abs_bucket 16 (d_disk Ex3R.ex3_st') (d_root ex3_db) (d_next ex3_db) = abs_db ex3_db.
Proof. vm_compute. reflexivity. Qed.

(* the pages concerned: the old snapshot is [3;10;11;12;13] + free-list page 2; the commit adds the pages 14..17 and
   the free-list page 18 (all beyond the old high-water mark 14); page 13 is shared by both snapshots *)
Example ex3_pages :
  live_of ex3_db (Rof ex3_db) = [3; 10; 11; 12; 13; 2]%N /\ d_np ex3_db = 14%N /\
  map fst (d_disk Ex3R.ex3_st') = [17; 16; 15; 14; 3; 10; 11; 12; 13]%N /\
  (d_fl Ex3R.ex3_st', d_fln Ex3R.ex3_st') = (18, 1)%N /\
  live_of Ex3R.ex3_st' (Rof Ex3R.ex3_st') = [17; 16; 15; 14; 13; 18]%N.
Proof. vm_compute. repeat split; reflexivity. Qed.

Example ex3_crash_safe : exists w, tx_cow ex3_db Ex3R.ex3_st' w /\
  forall cd : Crash.disk, Crash.select cd = Some (eng_header ex3_db) ->
    CrashFacts.commit_setting cd (eng_header ex3_db) (eng_header Ex3R.ex3_st') (d_tx Ex3R.ex3_st') (tx_written ex3_db Ex3R.ex3_st' w).
Proof.
  apply (engine_commit_setting ex3_db ex3_ops Ex3R.ex3_ord Ex3R.ex3_st' ex3_db_okz Ex3R.ex3_ops_ok Ex3R.ex3_run_ok).
  apply readableb_ok. vm_compute. reflexivity.
Qed.

(* -- the second transaction of ExHistory: it REUSES pages 2 and 3, which the first commit handed back and
      [begin_w] released; they are stale pages of the snapshot before the previous one, not of the previous one -- *)
Definition hist_run1 := Eval vm_compute in run_tx (init_db 4096) (fst ExHistory.tx1) (snd ExHistory.tx1).
Definition hist_st1 : db := match hist_run1 with Ok st => st | _ => init_db 4096 end.
Example hist_run1_ok : run_tx (init_db 4096) (fst ExHistory.tx1) (snd ExHistory.tx1) = Ok hist_st1.
Proof. vm_compute. reflexivity. Qed.
Example hist_run2_ok : run_tx hist_st1 (fst ExHistory.tx2) (snd ExHistory.tx2) = Ok ExHistory.hist_st.
Proof. vm_compute. reflexivity. Qed.

Example hist_st1_okz : db_okz hist_st1.
Proof.
  apply (run_tx_okz (init_db 4096) (fst ExHistory.tx1) (snd ExHistory.tx1) hist_st1 init_db_4096_okz);
    [repeat constructor; cbn; lia | exact hist_run1_ok | apply readableb_ok; vm_compute; reflexivity].
Qed.
Lemma hist_ops2_ok : Forall (op_ok (d_disk hist_st1)) (fst ExHistory.tx2).
Proof. repeat constructor; cbn; lia. Qed.

Example hist_cow1 : exists w, tx_cow (init_db 4096) hist_st1 w.
Proof.
  apply (run_tx_write_set (init_db 4096) (fst ExHistory.tx1) (snd ExHistory.tx1) hist_st1 init_db_4096_okz);
    [repeat constructor; cbn; lia | exact hist_run1_ok].
Qed.
Example hist_cow2 : exists w, tx_cow hist_st1 ExHistory.hist_st w.
Proof. exact (run_tx_write_set hist_st1 _ _ ExHistory.hist_st hist_st1_okz hist_ops2_ok hist_run2_ok). Qed.

Example hist_old_intact : abs_bucket 16 (d_disk ExHistory.hist_st) (d_root hist_st1) (d_next hist_st1) = abs_db hist_st1.
Proof.
  exact (proj2 (proj2 (proj2 (proj2 (proj2
    (old_snapshot_intact hist_st1 _ _ ExHistory.hist_st hist_st1_okz hist_ops2_ok hist_run2_ok)))))).
Qed.
Example hist_old_intact_eval :
  abs_bucket 16 (d_disk ExHistory.hist_st) (d_root hist_st1) (d_next hist_st1) = abs_db hist_st1.
Proof. vm_compute. reflexivity. Qed.

(* old snapshot [5;4] + free-list page 6; released by begin_w: 2, 3; the commit writes 7, 3, 2 and the free-list
   page 8: pages 2 and 3 come from the free list, 7 and 8 from beyond the old high-water mark 7 *)
Example hist_pages :
  live_of hist_st1 (Rof hist_st1) = [5; 4; 6]%N /\ d_np hist_st1 = 7%N /\ free (begin_w hist_st1) = [2; 3]%N /\
  map fst (d_disk hist_st1) = [5; 4; 3]%N /\ map fst (d_disk ExHistory.hist_st) = [7; 3; 2; 5; 4]%N /\
  (d_fl ExHistory.hist_st, d_fln ExHistory.hist_st) = (8, 1)%N /\
  live_of ExHistory.hist_st (Rof ExHistory.hist_st) = [7; 3; 2; 8]%N.
Proof. vm_compute. repeat split; reflexivity. Qed.
End ExCow.

(* ====================================================================== *)
(* Summary.

   Method.  The layers W1 (EngineOwnWr) and W2 (EngineOwnSpill, Section Spill) are generic in the set of pages that
   must not be handed out; only [commit_states] fixed it to [live_of st (Rof st)].  [commit_states_gen] redoes that
   step for any [Lx] containing the live pages with [fresh_inv Lx s1]; since the operations and rebalance only free
   pages ([tx_frees], [tx_frame]: free list and high-water mark are those of [begin_w st]), [Lx := held st] = EVERY
   page below [d_np st] that is not free after [begin_w]'s release is admissible.  [wr_ok (held st) s4] then says
   that each page of each written run is outside [held st]: free after release or beyond the old high-water mark.

   Proved (no [readable st'] needed except where stated):
     [run_tx_write_set]         exists w, tx_cow st st' w   (new disk = apply_wr w; COW; origin; range; disjoint runs)
     [run_tx_cow]               whole runs of the write set and the new free-list run avoid live_of st (Rof st)
     [run_tx_changed_not_live]  the same without the write set (pages whose image changed)
     [run_tx_writes_from_free]  written page >= d_np st or in free (begin_w st); [.._or_pending]: free or pending in st
     [old_snapshot_intact]      live pages byte-identical; fpg / runs / abs_bucket of the old header unchanged
     [old_view_abs], [old_view_strict]
     [engine_commit_setting]    (readable st') CrashFacts.commit_setting for cur := eng_header st, newh := eng_header st',
                                written := tx_written st st' w, for every crash disk whose selected header is cur
     [engine_commit_crash_safe] power_current / durable_current / fault_current instantiated with the engine's commit.

   Model boundary.  The free-list page is not an entry of [d_disk] (the model keeps its ids in [d_flids]); its run
   [d_fl st', d_fl st' + d_fln st') is treated as written.  Header pages 0/1 are outside the model ([tc_range]:
   written pages are >= 2).

   Not done: the page-lifecycle acceptor (PL.commit_ok, PLFacts.commit_cow / snapshot_never_written).  Its invariant
   [PLInv] demands that live, free and pending pages PARTITION [2, np) exactly (no leaked page) and its contract
   (c5) "allocated = live' or freed" / (c7) "live minus freed stays live"; [db_okz] allows leaked pages ([alloc_ok]
   bounds the live pages from above only).  Glue needed: (a) a no-leak strengthening of [db_okz] (every page of
   [2, d_np) is live, free or pending) kept by [run_tx] -- the accounting is in [frame] ([fr_src], [fr_pend],
   [fr_freed]) and [TreeOK] but "every allocated page is reachable or freed" is not stated anywhere; (b) readers:
   the engine model has no reader registry ([begin_w] releases every pending batch, i.e. it models the no-reader
   case), so [snapshot_never_written] for a registered reader needs [min_reader] added to [begin_w]. *)

Print Assumptions commit_states_gen.
Print Assumptions run_tx_write_set.
Print Assumptions run_tx_cow.
Print Assumptions run_tx_changed_not_live.
Print Assumptions run_tx_writes_from_free.
Print Assumptions run_tx_writes_from_free_or_pending.
Print Assumptions old_snapshot_intact.
Print Assumptions old_view_abs.
Print Assumptions old_view_strict.
Print Assumptions engine_commit_setting.
Print Assumptions engine_commit_crash_safe.
Print Assumptions ExCow.ex3_cow.
Print Assumptions ExCow.ex3_crash_safe.
Print Assumptions ExCow.hist_cow2.
Print Assumptions ExCow.hist_old_intact.
