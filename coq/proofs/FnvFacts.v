(* FNV-1a 64: every step is a bijection of the 64-bit state, hence two inputs that differ in
   exactly one byte have different hashes. *)
From Coq Require Import List NArith Bool Lia ZifyN ZifyBool.
From Coq.Strings Require Import Byte.
From Jamm Require Import Bytes Fnv BytesFacts.
Import ListNotations.
Open Scope N_scope.

Arguments N.add : simpl never.
Arguments N.mul : simpl never.
Arguments N.sub : simpl never.
Arguments N.div : simpl never.
Arguments N.modulo : simpl never.
Arguments N.pow : simpl never.

Lemma two64_pow : two64 = 2 ^ 64.
Proof. reflexivity. Qed.

Lemma two64_pos : two64 <> 0.
Proof. discriminate. Qed.

Lemma fnv_basis_lt : fnv_basis < two64.
Proof. reflexivity. Qed.

(* fnv_prime is odd: its inverse modulo 2^64 *)
Definition fnv_prime_inv : N := 14886173955864302971.

Lemma fnv_prime_inv_ok : (fnv_prime * fnv_prime_inv) mod two64 = 1.
Proof. vm_compute. reflexivity. Qed.

Lemma mul_prime_inj a b :
  a < two64 -> b < two64 -> (a * fnv_prime) mod two64 = (b * fnv_prime) mod two64 -> a = b.
Proof.
  intros Ha Hb E.
  assert (K : forall x, x < two64 -> (((x * fnv_prime) mod two64) * fnv_prime_inv) mod two64 = x).
  { intros x Hx. rewrite N.mul_mod_idemp_l by apply two64_pos.
    rewrite <- N.mul_assoc, <- N.mul_mod_idemp_r by apply two64_pos.
    rewrite fnv_prime_inv_ok, N.mul_1_r. now apply N.mod_small. }
  rewrite <- (K a Ha), <- (K b Hb), E. reflexivity.
Qed.

Lemma lxor_lt_two64 a b : a < two64 -> b < two64 -> N.lxor a b < two64.
Proof.
  intros Ha Hb. rewrite two64_pow in *.
  destruct (N.eq_dec (N.lxor a b) 0) as [E|NE]; [rewrite E; reflexivity|].
  apply N.log2_lt_pow2; [lia|].
  pose proof (N.log2_lxor a b) as HL.
  assert (La : N.log2 a < 64).
  { destruct (N.eq_dec a 0) as [->|Na]; [reflexivity|]. apply N.log2_lt_pow2; lia. }
  assert (Lb : N.log2 b < 64).
  { destruct (N.eq_dec b 0) as [->|Nb]; [reflexivity|]. apply N.log2_lt_pow2; lia. }
  lia.
Qed.

Lemma byte_lt_two64 b : Byte.to_N b < two64.
Proof. pose proof (to_N_lt b). unfold two64. lia. Qed.

Lemma lxor_cancel_r a b c : N.lxor a c = N.lxor b c -> a = b.
Proof.
  intros E. apply (f_equal (fun x => N.lxor x c)) in E.
  now rewrite !N.lxor_assoc, !N.lxor_nilpotent, !N.lxor_0_r in E.
Qed.

Lemma lxor_cancel_l a b c : N.lxor c a = N.lxor c b -> a = b.
Proof. rewrite !(N.lxor_comm c). apply lxor_cancel_r. Qed.

Lemma fnv_step_lt h b : fnv_step h b < two64.
Proof. unfold fnv_step. apply N.mod_upper_bound, two64_pos. Qed.

Lemma fnv_step_inj h1 h2 b :
  h1 < two64 -> h2 < two64 -> fnv_step h1 b = fnv_step h2 b -> h1 = h2.
Proof.
  unfold fnv_step. intros H1 H2 E.
  apply mul_prime_inj in E; try (apply lxor_lt_two64; [assumption|apply byte_lt_two64]).
  eapply lxor_cancel_r; eassumption.
Qed.

Lemma fnv_step_byte_inj h b1 b2 : h < two64 -> fnv_step h b1 = fnv_step h b2 -> b1 = b2.
Proof.
  unfold fnv_step. intros H E.
  apply mul_prime_inj in E; try (apply lxor_lt_two64; [assumption|apply byte_lt_two64]).
  apply lxor_cancel_l in E. now apply to_N_inj.
Qed.

Lemma fnv_fold_lt bs h : h < two64 -> fold_left fnv_step bs h < two64.
Proof.
  revert h. induction bs as [|b bs IH]; intros h H; [exact H|].
  cbn [fold_left]. apply IH, fnv_step_lt.
Qed.

Lemma fnv_lt bs : fnv bs < two64.
Proof. apply fnv_fold_lt, fnv_basis_lt. Qed.

Lemma fnv_fold_inj bs h1 h2 :
  h1 < two64 -> h2 < two64 -> fold_left fnv_step bs h1 = fold_left fnv_step bs h2 -> h1 = h2.
Proof.
  revert h1 h2. induction bs as [|b bs IH]; intros h1 h2 H1 H2 E; [exact E|].
  cbn [fold_left] in E. apply IH in E; try apply fnv_step_lt.
  eapply fnv_step_inj; eassumption.
Qed.

Theorem fnv_one_byte : forall (pre suf : bytes) (b1 b2 : byte),
  b1 <> b2 -> fnv (pre ++ b1 :: suf) <> fnv (pre ++ b2 :: suf).
Proof.
  intros pre suf b1 b2 NE E. unfold fnv in E.
  rewrite !fold_left_app in E. cbn [fold_left] in E.
  apply fnv_fold_inj in E; try apply fnv_step_lt.
  apply fnv_step_byte_inj in E; [contradiction|].
  apply fnv_fold_lt, fnv_basis_lt.
Qed.
Print Assumptions fnv_step_lt.
Print Assumptions fnv_step_inj.
Print Assumptions fnv_step_byte_inj.
Print Assumptions fnv_one_byte.

(* two strings that differ in exactly one position *)
Definition one_diff (l l' : bytes) : Prop :=
  exists p x y s, l = p ++ x :: s /\ l' = p ++ y :: s /\ x <> y.

Lemma fnv_one_diff A B X X' : one_diff X X' -> fnv (A ++ X ++ B) <> fnv (A ++ X' ++ B).
Proof.
  intros (p & x & y & s & -> & -> & NE).
  rewrite <- !(app_assoc p), <- !app_comm_cons, !(app_assoc A p).
  now apply fnv_one_byte.
Qed.
