(* PARAMETRICITY OF THE ENGINE IN THE PENDING LIST.

   Every function of the write path touches the allocator state [txs] only through five primitives:
   [next_seq], [free_pages] (free_run), [tx_allocate], [upd_wr] and the reads [psz] / [wr].  Hence, for any
   transformation [A] of allocator states that commutes with the primitives on the states satisfying a predicate
   [J] kept by the primitives, every function [F] satisfies
        J s  ->  F (A s) = map_A (F s)   and   J holds of the resulting state           ([simr])
   This file proves it once for all functions (operations, rebalance, spill) -- section [Sim].  The instance used
   for read transactions: [A := addp old] = "the pending batches [old] of OTHER (older) transactions are in front
   of the list", [J s] := every batch of [pending s] is filed under [txid s] (EngineRBegin.v). *)
From Coq Require Import List NArith Bool Arith Lia ZifyN ZifyNat ZifyBool.
From Coq.Strings Require Import Byte.
From Jamm Require Import Bytes Engine EngineR EnginePathFacts.
Import ListNotations.
Local Open Scope list_scope. Local Open Scope nat_scope.
Arguments N.add : simpl never. Arguments N.sub : simpl never. Arguments N.mul : simpl never.
Arguments N.div : simpl never. Arguments N.ltb : simpl never. Arguments N.leb : simpl never.
Arguments N.eqb : simpl never.

(* [simr m P r1 r2]: r1 is r2 with its value mapped by m; the value of r2 satisfies P *)
Definition simr {R : Type} (m : R -> R) (P : R -> Prop) (r1 r2 : res R) : Prop :=
  match r2 with
  | Ok y => r1 = Ok (m y) /\ P y
  | Panic e => r1 = Panic e
  | Err e => r1 = Err e
  end.

Lemma simr_bind : forall {R T} (m : R -> R) (P : R -> Prop) (m' : T -> T) (P' : T -> Prop)
  (r1 r2 : res R) (k1 k2 : R -> res T),
  simr m P r1 r2 -> (forall y, P y -> simr m' P' (k1 (m y)) (k2 y)) -> simr m' P' (bind r1 k1) (bind r2 k2).
Proof.
  intros R T m P m' P' r1 r2 k1 k2 H Hk. destruct r2 as [y|e|e]; cbn [simr] in H.
  - destruct H as [-> Hy]. cbn [bind]. now apply Hk.
  - subst r1. reflexivity.
  - subst r1. reflexivity.
Qed.

(* a pure computation in front *)
Lemma simr_bind_pure : forall {R T} (m' : T -> T) (P' : T -> Prop) (r : res R) (k1 k2 : R -> res T),
  (forall y, simr m' P' (k1 y) (k2 y)) -> simr m' P' (bind r k1) (bind r k2).
Proof. intros R T m' P' r k1 k2 Hk. destruct r as [y|e|e]; cbn [bind simr]; [apply Hk | reflexivity | reflexivity]. Qed.

Lemma simr_ok : forall {R} (m : R -> R) (P : R -> Prop) y, P y -> simr m P (Ok (m y)) (Ok y).
Proof. intros. cbn [simr]. auto. Qed.
Lemma simr_err : forall {R} (m : R -> R) (P : R -> Prop) e, simr m P (Err e) (Err e).
Proof. reflexivity. Qed.
Lemma simr_panic : forall {R} (m : R -> R) (P : R -> Prop) e, simr m P (Panic e) (Panic e).
Proof. reflexivity. Qed.

Lemma simr_fold_res : forall {R B} (m : R -> R) (P : R -> Prop) (f : R -> B -> res R) (l : list B),
  (forall a x, In x l -> P a -> simr m P (f (m a) x) (f a x)) ->
  forall a, P a -> simr m P (fold_res f l (m a)) (fold_res f l a).
Proof.
  intros R B m P f l. induction l as [|x l IH]; intros Hf a Ha; cbn [fold_res].
  - now apply simr_ok.
  - eapply simr_bind; [apply Hf; [now left | exact Ha]|]. intros y Hy. apply IH; [|exact Hy].
    intros a' x' Hx'. apply Hf. now right.
Qed.

Lemma simr_fold_left : forall {R B} (m : R -> R) (P : R -> Prop) (f : res R -> B -> res R) (l : list B),
  (forall r1 r2 x, In x l -> simr m P r1 r2 -> simr m P (f r1 x) (f r2 x)) ->
  forall r1 r2, simr m P r1 r2 -> simr m P (fold_left f l r1) (fold_left f l r2).
Proof.
  intros R B m P f l. induction l as [|x l IH]; intros Hf r1 r2 Hr; cbn [fold_left]; [exact Hr|].
  apply IH; [intros; apply Hf; [now right | assumption]|]. apply Hf; [now left | exact Hr].
Qed.

(* the maps on the usual result shapes *)
Definition m2 {X} (A : txs -> txs) (y : X * txs) : X * txs := (fst y, A (snd y)).
Definition p2 {X} (J : txs -> Prop) (y : X * txs) : Prop := J (snd y).

Section Sim.
Variable A : txs -> txs.
Variable J : txs -> Prop.
Hypothesis A_psz : forall s, psz (A s) = psz s.
Hypothesis A_wr : forall s, wr (A s) = wr s.
Hypothesis A_seq : forall s, J s -> next_seq (A s) = (fst (next_seq s), A (snd (next_seq s))).
Hypothesis J_seq : forall s, J s -> J (snd (next_seq s)).
Hypothesis A_freep : forall s p n, J s -> free_pages (A s) p n = A (free_pages s p n).
Hypothesis J_freep : forall s p n, J s -> J (free_pages s p n).
Hypothesis A_alloc : forall s b, J s -> tx_allocate (A s) b = (fst (tx_allocate s b), A (snd (tx_allocate s b))).
Hypothesis J_alloc : forall s b, J s -> J (snd (tx_allocate s b)).
Hypothesis A_updwr : forall s w, J s -> upd_wr (A s) w = A (upd_wr s w).
Hypothesis J_updwr : forall s w, J s -> J (upd_wr s w).

Notation S2 := (simr (m2 A) (p2 J)).

Lemma ok2 : forall {X} (x : X) s, J s -> S2 (Ok (x, A s)) (Ok (x, s)).
Proof. intros X x s H. exact (simr_ok (m2 A) (p2 J) (x, s) H). Qed.

(* ---------- modify ---------- *)
Lemma modify_sim : forall f d n o s, J s -> S2 (modify f d n o (A s)) (modify f d n o s).
Proof.
  induction f as [|f IH]; intros d n o s HJ; [reflexivity|]. cbn [modify].
  destruct n as [p npg og sq [l|es] ks]; [now apply ok2|].
  destruct (index_of (Branches es) (lop_key o)) as [i ex]. destruct (nthN es i) as [[k q]|]; [|reflexivity].
  destruct (find_kid q ks) as [kd|].
  - eapply simr_bind; [apply IH; exact HJ|]. intros [kd' s'] Hy. cbn [m2 fst snd]. apply ok2. exact Hy.
  - destruct (dget d q) as [a|]; [|reflexivity]. rewrite (A_seq s HJ).
    destruct (next_seq s) as [sq' s1] eqn:E. cbn [fst snd].
    assert (HJ1 : J s1) by (pose proof (J_seq s HJ) as H; rewrite E in H; exact H).
    eapply simr_bind; [apply IH; exact HJ1|]. intros [kd' s'] Hy. cbn [m2 fst snd]. apply ok2. exact Hy.
Qed.

Lemma ensure_root_sim : forall d b s, J s -> S2 (ensure_root d b (A s)) (ensure_root d b s).
Proof.
  intros d b s HJ. unfold ensure_root. destruct (b_rootn b) as [n|]; [now apply ok2|].
  destruct (dget d (b_root_page b)) as [a|]; [|reflexivity]. rewrite (A_seq s HJ).
  destruct (next_seq s) as [sq s1] eqn:E. cbn [fst snd]. apply ok2.
  pose proof (J_seq s HJ) as H. rewrite E in H. exact H.
Qed.

Lemma b_modify_sim : forall d b o s, J s -> S2 (b_modify d b o (A s)) (b_modify d b o s).
Proof.
  intros d b o s HJ. unfold b_modify.
  eapply simr_bind; [apply ensure_root_sim; exact HJ|]. intros [n s1] H1. cbn [m2 fst snd].
  eapply simr_bind; [apply modify_sim; exact H1|]. intros [n' s2] H2. cbn [m2 fst snd]. apply ok2. exact H2.
Qed.

Lemma b_put_sim : forall d b k v s, J s -> S2 (b_put d b k v (A s)) (b_put d b k v s).
Proof.
  intros d b k v s HJ. unfold b_put. apply simr_bind_pure. intros [e|].
  - destruct (is_kv e); [now apply b_modify_sim | reflexivity].
  - eapply simr_bind; [apply b_modify_sim; exact HJ|]. intros [b' s'] H. cbn [m2 fst snd]. apply ok2. exact H.
Qed.

Lemma b_delete_sim : forall d b k s, J s -> S2 (b_delete d b k (A s)) (b_delete d b k s).
Proof.
  intros d b k s HJ. unfold b_delete. apply simr_bind_pure. intros [e|]; [|reflexivity].
  destruct (is_kv e); [now apply b_modify_sim | reflexivity].
Qed.

Lemma b_get_or_create_sim : forall d b name s, J s -> S2 (b_get_or_create d b name (A s)) (b_get_or_create d b name s).
Proof.
  intros d b name s HJ. unfold b_get_or_create. destruct (sub_find name (b_subs b)); [now apply ok2|].
  apply simr_bind_pure. intros [[k v|k r nx]|]; [reflexivity | now apply ok2 |].
  unfold new_bucket. rewrite (A_seq s HJ). destruct (next_seq s) as [sq s1] eqn:E. cbn [fst snd].
  assert (HJ1 : J s1) by (pose proof (J_seq s HJ) as H; rewrite E in H; exact H).
  eapply simr_bind; [apply b_modify_sim; exact HJ1|]. intros [b' s2] H. cbn [m2 fst snd]. apply ok2. exact H.
Qed.

(* ---------- delete_bucket ---------- *)
Lemma free_tree_sim : forall f d stack s, J s -> simr A J (free_tree f d stack (A s)) (free_tree f d stack s).
Proof.
  induction f as [|f IH]; intros d stack s HJ; [reflexivity|]. cbn [free_tree].
  destruct stack as [|p rest]; [now apply simr_ok|]. destruct (dget d p) as [a|]; [|reflexivity].
  rewrite (A_freep s p (ap_over a + 1)%N HJ). apply IH. now apply J_freep.
Qed.

Lemma b_delete_bucket_sim : forall d b name s, J s -> S2 (b_delete_bucket d b name (A s)) (b_delete_bucket d b name s).
Proof.
  intros d b name s HJ. unfold b_delete_bucket.
  eapply (simr_bind (m2 A) (p2 J)).
  { destruct (sub_find name (b_subs b)); [now apply ok2|]. apply simr_bind_pure.
    intros [[k v|k r nx]|]; [reflexivity | now apply ok2 | reflexivity]. }
  intros [b0 s0] H0. cbn [m2 fst snd]. unfold p2 in H0. cbn [snd] in H0.
  destruct (take_sub name (b_subs b0)) as [[sb rest]|]; [|reflexivity].
  eapply (simr_bind A J).
  { destruct (b_root_page sb =? 0)%N; [now apply simr_ok | now apply free_tree_sim]. }
  intros s1 H1. apply simr_bind_pure. intros [e|]; [|reflexivity].
  destruct (is_kv e); [reflexivity | now apply b_modify_sim].
Qed.

(* ---------- paths, the operations of a transaction ---------- *)
Lemma at_path_sim : forall (g : bucket -> txs -> res (bucket * txs)),
  (forall b s, J s -> S2 (g b (A s)) (g b s)) ->
  forall fuel d b path s, J s -> S2 (at_path fuel d b path g (A s)) (at_path fuel d b path g s).
Proof.
  intros g Hg. induction fuel as [|fu IH]; intros d b path s HJ; [reflexivity|]. cbn [at_path].
  destruct path as [|nm rest]; [now apply Hg|].
  eapply simr_bind; [apply b_get_or_create_sim; exact HJ|]. intros [b1 s1] H1. cbn [m2 fst snd].
  destruct (sub_find nm (b_subs b1)) as [sb|]; [|reflexivity].
  eapply simr_bind; [apply IH; exact H1|]. intros [sb' s2] H2. cbn [m2 fst snd]. apply ok2. exact H2.
Qed.

Lemma soft_sim : forall {X} (x : X) s r1 r2, J s -> S2 r1 r2 -> S2 (soft (x, A s) r1) (soft (x, s) r2).
Proof.
  intros X x s r1 r2 HJ H. destruct r2 as [y|e|e]; cbn [simr] in H.
  - destruct H as [-> Hy]. cbn [soft]. split; [reflexivity | exact Hy].
  - subst r1. reflexivity.
  - subst r1. cbn [soft]. now apply ok2.
Qed.

Lemma tx_step_sim : forall d rb s o, J s -> S2 (tx_step d (rb, A s) o) (tx_step d (rb, s) o).
Proof.
  intros d rb s o HJ. unfold tx_step. destruct o as [p k v|p k|p nm|p]; apply soft_sim; try exact HJ; apply at_path_sim; try exact HJ.
  - intros b s0 H0. apply soft_sim; [exact H0 | now apply b_put_sim].
  - intros b s0 H0. apply soft_sim; [exact H0 | now apply b_delete_sim].
  - intros b s0 H0. apply soft_sim; [exact H0 | now apply b_delete_bucket_sim].
  - intros b s0 H0. now apply ok2.
Qed.

Lemma tx_fold_sim : forall st ops rb s, J s -> S2 (tx_fold st ops (rb, A s)) (tx_fold st ops (rb, s)).
Proof.
  intros st ops rb s HJ. unfold tx_fold.
  apply (simr_fold_res (m2 A) (p2 J) (tx_step (d_disk st)) ops) with (a := (rb, s)); [|exact HJ].
  intros [rb' s'] o _ H. cbn [m2 fst snd]. now apply tx_step_sim.
Qed.

(* ---------- rebalance ---------- *)
Lemma needs_merging_A : forall s k, needs_merging (A s) k = needs_merging s k.
Proof. intros s k. unfold needs_merging. now rewrite A_psz. Qed.

Lemma free_node_page_A : forall s k, J s -> free_node_page (A s) k = A (free_node_page s k) /\ J (free_node_page s k).
Proof.
  intros s k HJ. unfold free_node_page. destruct (n_page k =? 0)%N; [auto|]. split; [now apply A_freep | now apply J_freep].
Qed.

Definition m3 (y : node * txs * bool) : node * txs * bool := (fst (fst y), A (snd (fst y)), snd y).
Definition p3 (y : node * txs * bool) : Prop := J (snd (fst y)).

Lemma try_merge_sim : forall d par k s, J s -> S2 (try_merge d par k (A s)) (try_merge d par k s).
Proof.
  intros d par k s HJ. unfold try_merge. rewrite needs_merging_A.
  destruct (negb (needs_merging s k)); [now apply ok2|].
  destruct (n_data par) as [l|es]; [reflexivity|].
  destruct ((llen es =? 1)%N && (0 <? dlen (n_data k))%N); [now apply ok2|].
  destruct (n_orig k) as [ok|]; [|reflexivity].
  destruct (bsearch (map fst es) ok) as [[|] idx]; [|reflexivity].
  eapply (simr_bind (m2 A) (p2 J)).
  { destruct (0 <? dlen (n_data k))%N; [|now apply ok2].
    destruct (if (idx =? 0)%N then nthN es 1 else nthN es (idx - 1)) as [[kq q]|]; [|reflexivity].
    eapply (simr_bind m3 p3).
    { destruct (find_kid q (n_kids par)) as [sb|]; [exact (simr_ok m3 p3 (sb, s, false) HJ)|].
      destruct (dget d q) as [a|]; [|reflexivity]. rewrite (A_seq s HJ).
      destruct (next_seq s) as [sq' s1] eqn:E. cbn [fst snd].
      assert (HJ1 : J s1) by (pose proof (J_seq s HJ) as H; rewrite E in H; exact H).
      exact (simr_ok m3 p3 (node_of_page q a sq', s1, true) HJ1). }
    intros [[sib s1] isnew] H1. unfold m3, p3 in *. cbn [fst snd] in *.
    apply simr_bind_pure. intros md. now apply ok2. }
  intros [sibo s1] H1. cbn [m2 fst snd]. unfold p2 in H1. cbn [snd] in H1.
  destruct (free_node_page_A s1 k H1) as [E HJ2]. rewrite E. now apply ok2.
Qed.

Lemma rebalance_kids_sim : forall f d n s, J s -> S2 (rebalance_kids f d n (A s)) (rebalance_kids f d n s).
Proof.
  induction f as [|f IH]; intros d n s HJ; [reflexivity|]. cbn [rebalance_kids].
  apply (simr_fold_left (m2 A) (p2 J)); [|now apply ok2].
  intros r1 r2 sq _ Hr. eapply simr_bind; [exact Hr|]. intros [n0 s0] H0. cbn [m2 fst snd]. unfold p2 in H0. cbn [snd] in H0.
  destruct (find (fun k => (n_seq k =? sq)%N) (n_kids n0)) as [k|]; [|now apply ok2].
  eapply (simr_bind (m2 A) (p2 J)).
  { destruct (is_leaf (n_data k)); [now apply ok2 | now apply IH]. }
  intros [k1 s1] H1. cbn [m2 fst snd]. now apply try_merge_sim.
Qed.

Lemma merge_nodes_sim : forall d b s, J s -> S2 (merge_nodes d b (A s)) (merge_nodes d b s).
Proof.
  intros d b s HJ. unfold merge_nodes.
  eapply simr_bind; [apply ensure_root_sim; exact HJ|]. intros [root s0] H0. cbn [m2 fst snd]. unfold p2 in H0. cbn [snd] in H0.
  eapply (simr_bind (m2 A) (p2 J)).
  { destruct (is_leaf (n_data root)); [now apply ok2 | now apply rebalance_kids_sim]. }
  intros [root1 s1] H1. cbn [m2 fst snd]. unfold p2 in H1. cbn [snd] in H1. rewrite needs_merging_A.
  destruct (needs_merging s1 root1 && negb (is_leaf (n_data root1)) && (dlen (n_data root1) =? 1)%N).
  - destruct (n_data root1) as [l|[|[k q] es]]; try reflexivity.
    destruct (free_node_page_A s1 root1 H1) as [E HJ2]. rewrite E. now apply ok2.
  - destruct (negb (is_leaf (n_data root1)) && (dlen (n_data root1) =? 0)%N); now apply ok2.
Qed.

Lemma rebalance_sim : forall f d b s, J s -> S2 (rebalance f d b (A s)) (rebalance f d b s).
Proof.
  induction f as [|f IH]; intros d b s HJ; [reflexivity|]. cbn [rebalance].
  destruct (negb (is_dirty fuel0 b)); [now apply ok2|].
  eapply (simr_bind (m2 A) (p2 J)).
  { apply (simr_fold_left (m2 A) (p2 J)); [|now apply ok2].
    intros r1 r2 x _ Hr. eapply simr_bind; [exact Hr|]. intros [l s0] H0. cbn [m2 fst snd].
    eapply simr_bind; [apply IH; exact H0|]. intros [b' s'] H'. cbn [m2 fst snd]. now apply ok2. }
  intros [subs' s1] H1. cbn [m2 fst snd]. now apply merge_nodes_sim.
Qed.

(* ---------- spill ---------- *)
Lemma split_A : forall s dd, split (A s) dd = split s dd.
Proof. intros s dd. unfold split. now rewrite A_psz. Qed.

Lemma write_node_A : forall s n, J s ->
  write_node (A s) n = (fst (write_node s n), A (snd (write_node s n))) /\ J (snd (write_node s n)).
Proof.
  intros s n HJ. unfold write_node. destruct (free_node_page_A s n HJ) as [E HJ1]. rewrite E.
  rewrite (A_alloc _ (node_size n) HJ1). pose proof (J_alloc _ (node_size n) HJ1) as HJ2.
  destruct (tx_allocate (free_node_page s n) (node_size n)) as [[p npg] s2]. cbn [fst snd] in *.
  rewrite A_wr. rewrite (A_updwr _ _ HJ2). split; [reflexivity | now apply J_updwr].
Qed.

Lemma spill_node_sim : forall f n s, J s -> S2 (spill_node f n (A s)) (spill_node f n s).
Proof.
  induction f as [|f IH]; intros n s HJ; [reflexivity|]. cbn [spill_node].
  apply simr_bind_pure. intros ks.
  eapply (simr_bind (m2 A) (p2 J)).
  { apply (simr_fold_res (m2 A) (p2 J)) with (a := (n_data n, s)); [|exact HJ].
    intros [dd s0] k _ H0. cbn [m2 fst snd]. unfold p2 in H0. cbn [snd] in H0.
    eapply simr_bind; [apply IH; exact H0|]. intros [[[ko kb] sibs] s'] H'. cbn [m2 fst snd].
    destruct dd as [l|es]; [reflexivity|]. apply simr_bind_pure. intros es1. apply simr_bind_pure. intros es2.
    now apply ok2. }
  intros [d1 s1] H1. cbn [m2 fst snd]. unfold p2 in H1. cbn [snd] in H1. rewrite split_A.
  destruct (split s1 d1) as [d0 rest].
  destruct (write_node_A s1 (set_kids (set_data n d0) []) H1) as [E1 HJ2]. rewrite E1.
  destruct (write_node s1 (set_kids (set_data n d0) [])) as [n1 s2]. cbn [fst snd] in *.
  assert (H23 : (match rest with [] => (n1, A s2) | _ :: _ => write_node (A s2) n1 end)
                = (fst (match rest with [] => (n1, s2) | _ :: _ => write_node s2 n1 end),
                   A (snd (match rest with [] => (n1, s2) | _ :: _ => write_node s2 n1 end))) /\
                J (snd (match rest with [] => (n1, s2) | _ :: _ => write_node s2 n1 end))).
  { destruct rest; [cbn [fst snd]; auto | now apply write_node_A]. }
  destruct H23 as [E2 HJ3]. rewrite E2.
  destruct (match rest with [] => (n1, s2) | _ :: _ => write_node s2 n1 end) as [n2 s3]. cbn [fst snd] in *.
  eapply (simr_bind (m2 A) (p2 J)).
  { apply (simr_fold_res (m2 A) (p2 J)) with (a := (@nil (bytes * N), s3)); [|exact HJ3].
    intros [l s0] dd _ H0. cbn [m2 fst snd]. unfold p2 in H0. cbn [snd] in H0.
    apply simr_bind_pure. intros fk.
    destruct (write_node_A s0 (Node 0 0 (Some fk) 0 dd []) H0) as [E HJ']. rewrite E.
    destruct (write_node s0 (Node 0 0 (Some fk) 0 dd [])) as [sn s']. cbn [fst snd] in *. now apply ok2. }
  intros [sibs s4] H4. cbn [m2 fst snd]. apply simr_bind_pure. intros fk0. now apply ok2.
Qed.

Lemma spill_root_sim : forall f n s, J s -> simr (m2 A) (p2 J) (spill_root f n (A s)) (spill_root f n s).
Proof.
  induction f as [|f IH]; intros n s HJ; [reflexivity|]. cbn [spill_root].
  eapply (simr_bind (m2 A) (p2 J)).
  { destruct (n_data n) as [[|e l]|es]; try (now apply spill_node_sim).
    destruct (write_node_A s (set_kids n []) HJ) as [E HJ']. rewrite E.
    destruct (write_node s (set_kids n [])) as [n1 s']. cbn [fst snd] in *. now apply ok2. }
  intros [[[og [fk p]] sibs] s1] H1. cbn [m2 fst snd]. unfold p2 in H1. cbn [snd] in H1.
  destruct sibs; [now apply ok2 | now apply IH].
Qed.

Definition m4 (y : N * N * txs * list bytes) : N * N * txs * list bytes :=
  (fst (fst (fst y)), snd (fst (fst y)), A (snd (fst y)), snd y).
Definition p4 (y : N * N * txs * list bytes) : Prop := J (snd (fst y)).
Definition m4a (y : list (bytes * N * N) * txs * list bytes * list (bytes * bucket)) :=
  (fst (fst (fst y)), A (snd (fst (fst y))), snd (fst y), snd y).
Definition p4a (y : list (bytes * N * N) * txs * list bytes * list (bytes * bucket)) : Prop := J (snd (fst (fst y))).

Lemma spill_bucket_sim : forall f d b s ord, J s -> simr m4 p4 (spill_bucket f d b (A s) ord) (spill_bucket f d b s ord).
Proof.
  induction f as [|f IH]; intros d b s ord HJ; [reflexivity|]. cbn [spill_bucket].
  destruct (negb (is_dirty fuel0 b)); [exact (simr_ok m4 p4 (b_root_page b, b_next b, s, ord) HJ)|].
  eapply (simr_bind m4a p4a).
  { apply (simr_fold_res m4a p4a) with (a := (@nil (bytes * N * N), s, ord, b_subs b)); [|exact HJ].
    intros [[[l s0] o] remaining] x _ H0. unfold m4a, p4a in *. cbn [fst snd] in *.
    destruct o as [|nm o']; [reflexivity|]. destruct (take_sub nm remaining) as [[sb rem']|]; [|reflexivity].
    eapply simr_bind; [apply IH; exact H0|]. intros [[[r nx] s'] o''] H'. unfold m4, p4 in *. cbn [fst snd] in *.
    exact (simr_ok m4a p4a (l ++ [(nm, r, nx)], s', o'', rem') H'). }
  intros [[[metas s1] ord1] rem] H1. unfold m4a, p4a in H1 |- *. cbn [fst snd] in *.
  eapply (simr_bind (m2 A) (p2 J)).
  { apply (simr_fold_res (m2 A) (p2 J)) with (a := (b, s1)); [|exact H1].
    intros [bb s0] [[nm r] nx] _ H0. cbn [m2 fst snd]. unfold p2 in H0. cbn [snd] in H0.
    apply simr_bind_pure. intros [e|].
    - destruct (is_kv e); [reflexivity | now apply b_modify_sim].
    - eapply simr_bind; [apply b_modify_sim; exact H0|]. intros [b' s'] H'. cbn [m2 fst snd]. now apply ok2. }
  intros [b1 s2] H2. cbn [m2 fst snd]. unfold p2 in H2. cbn [snd] in H2.
  destruct (b_rootn b1) as [rn|]; [|exact (simr_ok m4 p4 (b_root_page b1, b_next b1, s2, ord1) H2)].
  eapply simr_bind; [apply spill_root_sim; exact H2|]. intros [p s3] H3. cbn [m2 fst snd].
  exact (simr_ok m4 p4 (p, b_next b1, s3, ord1) H3).
Qed.

End Sim.

Print Assumptions spill_bucket_sim.
Print Assumptions tx_fold_sim.
Print Assumptions rebalance_sim.
