(* PANIC FREEDOM of whole transactions of the engine model.

   Stage 1 (EngineDepth.v): uniform depth ([db_depth]) is kept by the operations and by rebalance; rebalance
                   never panics.
   Stage 2 (here): [spill_tail_total], [kid_step_eval], [spill_node_no_panic], [spill_root_no_panic],
                   [meta_step_total], [spill_bucket_ok]: the spill does not panic on the overlay that rebalance
                   leaves, and returns [Ok] or one of three [Err]s ([spill_node_err], [rebalance_err], ...: which
                   [Err]s can occur is a property of the code alone, except "IncompatibleValue" of the parent
                   update, which the invariants exclude).
   Stage 3 (here): [run_tx_ok], [run_tx_no_panic], [run_tx_result]: a transaction on a well-formed state of
                   uniform depth ends in [Ok] or in [Err] "fuel" / "order oracle exhausted" / "order oracle names
                   unknown bucket".
   That uniform depth is re-established by the spill (so that the result applies to histories), and that it is
   NEEDED (a [db_okz] state on which a transaction panics), is in EngineSpillDepth.v. *)
From Coq Require Import List NArith Bool Arith Lia ZifyN ZifyNat ZifyBool Permutation.
From Coq.Strings Require Import Byte.
From Jamm Require Spec.
From Jamm Require Import Bytes BytesFacts Tree Cursor SearchFacts Engine EngineAbs EngineFacts EngineMergeFacts.
From Jamm Require Import EngineModifyFacts EngineSpillFacts EnginePathFacts EngineBridgeFacts EngineRebalanceFacts.
From Jamm Require Import EngineTxInvFacts EngineSpillBucketFacts EngineRefines EngineOwnDefs EngineOwnSpill EngineAllocInv.
From Jamm Require Import EngineDepth.
Import ListNotations.
Import Coq.Strings.String.StringSyntax. Delimit Scope string_scope with string.
Local Open Scope list_scope. Local Open Scope nat_scope.
Set Warnings "-abstract-large-number".
Arguments N.add : simpl never. Arguments N.sub : simpl never. Arguments N.mul : simpl never.
Arguments N.div : simpl never. Arguments N.ltb : simpl never. Arguments N.leb : simpl never.
Arguments N.eqb : simpl never.

(* ====================================================================== *)
(** * 1. The tail of [spill_node] is total on non-empty data *)

Lemma first_key_total : forall dd, (0 < dlen dd)%N -> exists k, first_key dd = Ok k.
Proof.
  intros [[|e l]|[|e es]] H; cbn [dlen] in H; unfold llen in H; cbn [length] in H; try lia; cbn [first_key]; eauto.
Qed.

Lemma split_nonempty : forall s dd d0 rest, (0 < dlen dd)%N -> split s dd = (d0, rest) ->
  (0 < dlen d0)%N /\ Forall (fun x => (0 < dlen x)%N) rest.
Proof.
  intros s [l|es] d0 rest Hpos Hsp.
  - destruct (split_leaves s l) as (l0 & ls & E & Hcat & _ & _ & H2). rewrite E in Hsp. inversion Hsp; subst d0 rest.
    destruct ls as [|x ls].
    + cbn [concat] in Hcat. rewrite app_nil_r in Hcat. subst l0. split; [exact Hpos | constructor].
    + specialize (H2 ltac:(discriminate)). inversion H2 as [|? ? H0 Hr]; subst. split.
      * cbn [dlen]. unfold llen. lia.
      * apply Forall_forall. intros y Hy. apply in_map_iff in Hy. destruct Hy as (p & <- & Hp).
        rewrite Forall_forall in Hr. specialize (Hr p Hp). cbn [dlen]. unfold llen. lia.
  - destruct (split_branches s es) as (e0 & ess & E & Hcat & _ & _ & H2). rewrite E in Hsp. inversion Hsp; subst d0 rest.
    destruct ess as [|x ess].
    + cbn [concat] in Hcat. rewrite app_nil_r in Hcat. subst e0. split; [exact Hpos | constructor].
    + specialize (H2 ltac:(discriminate)). inversion H2 as [|? ? H0 Hr]; subst. split.
      * cbn [dlen]. unfold llen. lia.
      * apply Forall_forall. intros y Hy. apply in_map_iff in Hy. destruct Hy as (p & <- & Hp).
        rewrite Forall_forall in Hr. specialize (Hr p Hp). cbn [dlen]. unfold llen. lia.
Qed.

Lemma write_node_data : forall s n, n_data (fst (write_node s n)) = n_data n.
Proof.
  intros s n. unfold write_node. destruct (tx_allocate (free_node_page s n) (node_size n)) as [[p npg] s2].
  cbn [fst]. destruct n; reflexivity.
Qed.

Lemma sib_fold_total : forall rest acc, Forall (fun x => (0 < dlen x)%N) rest ->
  exists r, fold_res spill_sib_step rest acc = Ok r.
Proof.
  induction rest as [|dd rest IH]; intros [l s0] HF; cbn [fold_res]; [eauto|]. inversion HF; subst.
  unfold spill_sib_step at 1. destruct (first_key_total dd H1) as [fk ->]. cbn [bind].
  destruct (write_node s0 (Node 0 0 (Some fk) 0 dd [])) as [sn s']. cbn [bind]. apply IH. assumption.
Qed.

Theorem spill_tail_total : forall n d1 s1, (0 < dlen d1)%N -> exists r, spill_tail n d1 s1 = Ok r.
Proof.
  intros n d1 s1 Hpos. unfold spill_tail. destruct (split s1 d1) as [d0 rest] eqn:Esp.
  destruct (split_nonempty _ _ _ _ Hpos Esp) as [H0 Hr].
  pose proof (write_node_data s1 (set_kids (set_data n d0) [])) as E1.
  destruct (write_node s1 (set_kids (set_data n d0) [])) as [n1 s2]. cbn [fst] in E1.
  assert (E2 : forall x : node * txs, x = (match rest with [] => (n1, s2) | _ => write_node s2 n1 end) ->
               n_data (fst x) = d0).
  { intros x ->. destruct rest; [|rewrite write_node_data]; cbn [fst]; rewrite E1; destruct n; reflexivity. }
  destruct (match rest with [] => (n1, s2) | _ => write_node s2 n1 end) as [n2 s3]. specialize (E2 _ eq_refl). cbn [fst] in E2.
  destruct (sib_fold_total rest ([], s3) Hr) as [[sibs s4] ->]. cbn [bind]. rewrite E2.
  destruct (first_key_total d0 H0) as [fk0 ->]. cbn [bind]. eauto.
Qed.

(* ====================================================================== *)
(** * 2. [spill_node] does not panic on an overlay node satisfying [swf] *)

Lemma swf_nonempty : forall fuel d keep lo hi n, swf fuel d keep lo hi n -> (0 < dlen (n_data n))%N.
Proof.
  intros fuel d keep lo hi n H. inversion H as [? ? ? ? ? ? l (Hne & _) | ? ? ? ? ? ? es kids (Hne & _)]; subst;
    cbn [n_data dlen]; unfold llen.
  - destruct l; [exfalso; apply Hne; reflexivity | cbn [length]; lia].
  - destruct es; [exfalso; apply Hne; reflexivity | cbn [length]; lia].
Qed.

Lemma kid_keys_total : forall kids, Forall (fun k => (0 < dlen (n_data k))%N) kids -> exists ks, kid_keys kids = Ok ks.
Proof.
  unfold kid_keys. intros kids.
  assert (G : forall acc : list (bytes * node), Forall (fun k => (0 < dlen (n_data k))%N) kids ->
    exists ks, fold_res (fun acc k => bind (first_key (n_data k)) (fun fk => Ok (acc ++ (fk, k) :: nil))) kids acc = Ok ks).
  { induction kids as [|k kids IH]; intros acc HF; cbn [fold_res]; [eauto|]. inversion HF; subst.
    destruct (first_key_total _ H1) as [fk ->]. cbn [bind]. apply IH. assumption. }
  apply G.
Qed.

Section KidsNP.
  Variables (fuel : nat) (d : disk) (keep : list N) (f : nat) (lo hi : option bytes).
  Variables (es : list (bytes * N)) (kids : list node).
  Hypothesis IHnp : forall live lo hi n s msg, fresh_inv live s -> swf fuel d keep lo hi n -> spill_node f n s <> Panic msg.
  Hypothesis Hes : keys_ok lo hi (map fst es).
  Hypothesis Hnd_es : NoDup (map snd es).
  Hypothesis Hnd_kids : NoDup (map n_page kids).
  Hypothesis Horig : forall kd, In kd kids -> exists k, n_orig kd = Some k /\ In (k, n_page kd) es.
  Hypothesis Hkids : forall l h e kd, In (l, h, e) (chb lo hi es) -> find_kid (snd e) kids = Some kd ->
                                      swf fuel d keep l h kd.

  (* one step of the fold over the kids, evaluated: the kid's entry is replaced by the kid's output *)
  Lemma kid_step_eval : forall kd outs live s ko fk p sibs sk, fresh_inv live s -> In kd kids ->
    find_out outs (n_page kd) = None ->
    (forall l h e, In (l, h, e) (chb lo hi es) -> keys_ok l h (map fst (seg_of outs e))) ->
    spill_node f kd s = Ok ((ko, (fk, p), sibs), sk) ->
    spill_kid_step f (Branches (flat_map (seg_of outs) es), s) kd =
      Ok (Branches (flat_map (seg_of ((n_page kd, (fk, p) :: sibs) :: outs)) es), sk) /\
    (forall l h e, In (l, h, e) (chb lo hi es) ->
       keys_ok l h (map fst (seg_of ((n_page kd, (fk, p) :: sibs) :: outs) e))).
  Proof.
    intros kd outs live s ko fk p sibs sk Hfi Hkd Hq_none Hsegs Hsp. unfold spill_kid_step. rewrite Hsp. cbn [bind].
    destruct (Horig kd Hkd) as (k & Eorig & Hin_es). set (q := n_page kd) in *.
    destruct (chb_In lo hi es _ Hin_es) as (l & h & Hchb).
    pose proof (find_kid_NoDup kids kd Hnd_kids Hkd) as Hfk. fold q in Hfk.
    pose proof (Hkids l h (k, q) kd Hchb Hfk) as Hswf.
    destruct (spill_node_spec fuel d keep f _ _ _ _ _ _ _ _ _ _ Hfi Hswf Hsp)
      as (a1 & dd1 & g1 & Hfr1 & Hg1a & Hg1p & Eko & _ & _ & _ & Hents1 & Hdead1).
    rewrite Eorig in Eko. subst ko.
    assert (HK : forall l' h', In (l', h', (k, q)) (chb lo hi es) -> keys_ok l' h' (map fst ((fk, p) :: sibs))).
    { intros l' h' Hc. pose proof (Hkids l' h' (k, q) kd Hc Hfk) as Hswf'.
      destruct (spill_node_spec fuel d keep f _ _ _ _ _ _ _ _ _ _ Hfi Hswf' Hsp) as (_ & _ & _ & _ & _ & _ & _ & Hk & _). exact Hk. }
    set (K := (fk, p) :: sibs) in *. set (outs1 := (q, K) :: outs).
    assert (Hseg_same : forall e, In e es -> e <> (k, q) -> seg_of outs1 e = seg_of outs e).
    { intros e He Hne. unfold seg_of, outs1. rewrite find_out_cons.
      destruct (N.eqb_spec q (snd e)) as [E|E]; [|reflexivity].
      exfalso. apply Hne. apply (EngineMergeFacts.NoDup_map_inj snd es _ _ Hnd_es He Hin_es). cbn [snd]. congruence. }
    assert (Hseg_q : seg_of outs1 (k, q) = K).
    { unfold seg_of, outs1. rewrite find_out_cons. cbn [snd]. rewrite N.eqb_refl. reflexivity. }
    assert (Hseg_q0 : seg_of outs (k, q) = [(k, q)]).
    { unfold seg_of. cbn [snd]. rewrite Hq_none. reflexivity. }
    assert (Hsegs1 : forall l' h' e, In (l', h', e) (chb lo hi es) -> keys_ok l' h' (map fst (seg_of outs1 e))).
    { intros l' h' e Hc. destruct (N.eq_dec (snd e) q) as [E|E].
      - assert (e = (k, q)).
        { apply (EngineMergeFacts.NoDup_map_inj snd es _ _ Hnd_es (chb_In_inv _ _ _ _ _ _ Hc) Hin_es). exact E. }
        subst e. rewrite Hseg_q. apply HK, Hc.
      - rewrite Hseg_same; [apply Hsegs, Hc|apply (chb_In_inv _ _ _ _ _ _ Hc)|].
        intros E'. apply E. rewrite E'. reflexivity. }
    split; [|exact Hsegs1].
    destruct Hes as (_ & Hes_s & Hes_r).
    destruct (segs_sorted (seg_of outs) es lo hi Hes_s Hes_r Hsegs) as [Hsort0 _].
    destruct (segs_sorted (seg_of outs1) es lo hi Hes_s Hes_r Hsegs1) as [Hsort1 _].
    destruct (in_split _ _ Hin_es) as (A & B & EAB).
    assert (HA : forall e, In e A -> seg_of outs1 e = seg_of outs e).
    { intros e He. apply Hseg_same.
      - rewrite EAB. apply in_or_app. left. exact He.
      - intros ->. rewrite EAB, map_app in Hes_s. cbn [map fst] in Hes_s.
        destruct (sorted_mid _ _ _ Hes_s) as [HlA _]. rewrite Forall_forall in HlA.
        specialize (HlA k (in_map fst _ _ He)). rewrite bcmp_refl in HlA. discriminate. }
    assert (HB : forall e, In e B -> seg_of outs1 e = seg_of outs e).
    { intros e He. apply Hseg_same.
      - rewrite EAB. apply in_or_app. right. right. exact He.
      - intros ->. rewrite EAB, map_app in Hes_s. cbn [map fst] in Hes_s.
        destruct (sorted_mid _ _ _ Hes_s) as [_ HlB]. rewrite Forall_forall in HlB.
        specialize (HlB k (in_map fst _ _ He)). rewrite bcmp_refl in HlB. discriminate. }
    assert (E0 : flat_map (seg_of outs) es = flat_map (seg_of outs) A ++ (k, q) :: flat_map (seg_of outs) B).
    { rewrite EAB at 1. rewrite flat_map_app. cbn [flat_map]. rewrite Hseg_q0. reflexivity. }
    assert (E1 : flat_map (seg_of outs1) es = flat_map (seg_of outs) A ++ K ++ flat_map (seg_of outs) B).
    { rewrite EAB at 1. rewrite flat_map_app. cbn [flat_map]. rewrite Hseg_q.
      rewrite (flat_map_ext_in _ _ A HA), (flat_map_ext_in _ _ B HB). reflexivity. }
    rewrite E0 in Hsort0. rewrite E1 in Hsort1. rewrite E0.
    rewrite (insert_branch_replace _ _ _ _ (fk, p) Hsort0). cbn [bind].
    change (flat_map (seg_of outs) A ++ (fk, p) :: flat_map (seg_of outs) B)
      with (flat_map (seg_of outs) A ++ [(fk, p)] ++ flat_map (seg_of outs) B).
    rewrite (insert_branch_sibs sibs _ [(fk, p)] _ Hsort1). cbn [bind]. rewrite E1. reflexivity.
  Qed.

  Lemma kid_step_no_panic : forall kd outs live s msg, fresh_inv live s -> In kd kids ->
    find_out outs (n_page kd) = None ->
    (forall l h e, In (l, h, e) (chb lo hi es) -> keys_ok l h (map fst (seg_of outs e))) ->
    spill_kid_step f (Branches (flat_map (seg_of outs) es), s) kd <> Panic msg.
  Proof.
    intros kd outs live s msg Hfi Hkd Hq_none Hsegs.
    destruct (spill_node f kd s) as [[[[ko [fk p]] sibs] sk]|m|e] eqn:Hsp.
    - rewrite (proj1 (kid_step_eval kd outs live s ko fk p sibs sk Hfi Hkd Hq_none Hsegs Hsp)). discriminate.
    - unfold spill_kid_step. rewrite Hsp. cbn [bind]. intros E. inversion E; subst m.
      destruct (Horig kd Hkd) as (k & Eorig & Hin_es). destruct (chb_In lo hi es _ Hin_es) as (l & h & Hchb).
      refine (IHnp _ _ _ _ _ _ Hfi (Hkids l h (k, n_page kd) kd Hchb _) Hsp). cbn [snd]. now apply find_kid_NoDup.
    - unfold spill_kid_step. rewrite Hsp. discriminate.
  Qed.
End KidsNP.

Lemma kids_fold_no_panic : forall fuel d keep f lo hi es kids,
  (forall live lo hi n s msg, fresh_inv live s -> swf fuel d keep lo hi n -> spill_node f n s <> Panic msg) ->
  keys_ok lo hi (map fst es) -> NoDup (map snd es) -> NoDup (map n_page kids) ->
  (forall kd, In kd kids -> exists k, n_orig kd = Some k /\ In (k, n_page kd) es) ->
  (forall l h e kd, In (l, h, e) (chb lo hi es) -> find_kid (snd e) kids = Some kd -> swf fuel d keep l h kd) ->
  forall todo outs live s msg, fresh_inv live s ->
    NoDup (map n_page todo) -> (forall kd, In kd todo -> In kd kids) ->
    (forall kd, In kd todo -> find_out outs (n_page kd) = None) ->
    (forall l h e, In (l, h, e) (chb lo hi es) -> keys_ok l h (map fst (seg_of outs e))) ->
    fold_res (spill_kid_step f) todo (Branches (flat_map (seg_of outs) es), s) <> Panic msg.
Proof.
  intros fuel d keep f lo hi es kids IHnp Hes Hnd_es Hnd_kids Horig Hkids.
  induction todo as [|kd todo IH]; intros outs live s msg Hfi Hnd Hsub Hnone Hsegs; cbn [fold_res]; [discriminate|].
  pose proof (kid_step_no_panic fuel d keep f lo hi es kids IHnp Hes Hnd_es Hnd_kids Horig Hkids kd outs live s msg Hfi
                (Hsub kd (or_introl eq_refl)) (Hnone kd (or_introl eq_refl)) Hsegs) as Hstep.
  destruct (spill_kid_step f (Branches (flat_map (seg_of outs) es), s) kd) as [[d2 s2]|m|e] eqn:Est; cbn [bind].
  2:{ intros E. apply Hstep. inversion E. reflexivity. }
  2:{ discriminate. }
  inversion Hnd as [|? ? Hq_notin Hnd']; subst.
  destruct (kids_fold fuel d keep f lo hi es kids (spill_node_spec fuel d keep f) Hes Hnd_es Hnd_kids Horig Hkids
              [kd] outs live s d2 s2 Hfi)
    as (outs' & a1 & dd1 & g1 & Ed2 & Hfr & _ & Hsegs' & Hother & _).
  - repeat constructor. intros [].
  - intros kd' [<-|[]]. apply Hsub. now left.
  - intros kd' [<-|[]]. apply Hnone. now left.
  - exact Hsegs.
  - cbn [fold_res]. rewrite Est. reflexivity.
  - subst d2. apply (IH outs' (a1 ++ live) s2 msg (fr_fresh _ _ _ _ _ Hfr) Hnd').
    + intros kd' Hk'. apply Hsub. now right.
    + intros kd' Hk'. rewrite Hother; [apply Hnone; now right|].
      intros [E|[]]. apply Hq_notin. rewrite E. now apply in_map.
    + exact Hsegs'.
Qed.

Theorem spill_node_no_panic : forall fuel d keep f live lo hi n s msg,
  fresh_inv live s -> swf fuel d keep lo hi n -> spill_node f n s <> Panic msg.
Proof.
  intros fuel d keep. induction f as [|f IHf]; intros live lo hi n s msg Hfi Hswf; [discriminate|].
  rewrite spill_node_unfold.
  inversion Hswf as [lo0 hi0 pg npg o sq l Hkeys | lo0 hi0 pg npg o sq es kids Hes Hnd_es Hnd_kids Horig Hkids Hstab];
    subst lo0 hi0 n.
  - cbn [n_kids n_data kid_keys fold_res bind isort_by map].
    destruct (spill_tail_total (Node pg npg o sq (Leaves l) []) (Leaves l) s) as [r ->]; [|discriminate].
    exact (swf_nonempty _ _ _ _ _ _ Hswf).
  - cbn [n_kids n_data].
    assert (Hkne : Forall (fun k => (0 < dlen (n_data k))%N) kids).
    { apply Forall_forall. intros kd Hkd. destruct (Horig kd Hkd) as (k & _ & Hin).
      destruct (chb_In lo hi es _ Hin) as (l & h & Hchb).
      eapply swf_nonempty. eapply (Hkids l h (k, n_page kd) kd Hchb). cbn [snd]. now apply find_kid_NoDup. }
    destruct (kid_keys_total kids Hkne) as [ks Hkk]. rewrite Hkk. cbn [bind].
    set (todo := map snd (isort_by fst ks)).
    assert (Hperm : Permutation todo kids).
    { unfold todo. rewrite <- (kid_keys_snd _ _ Hkk). apply Permutation_map, isort_by_perm. }
    pose proof Hes as (Hes_ne & Hes_s & Hes_r).
    assert (Hsegs0 : forall l h e, In (l, h, e) (chb lo hi es) -> keys_ok l h (map fst (seg_of [] e))).
    { intros l h e Hi. cbn [seg_of find_out find option_map map]. split; [discriminate|]. split; [reflexivity|].
      intros k [<-|[]]. apply (chb_self es lo hi Hes_s Hes_r _ _ _ Hi). }
    assert (E0 : es = flat_map (seg_of []) es) by (symmetry; apply flat_map_single).
    assert (Hndt : NoDup (map n_page todo)).
    { apply (Permutation_NoDup (l := map n_page kids)); [apply Permutation_map; symmetry; exact Hperm|exact Hnd_kids]. }
    assert (Hsubt : forall kd, In kd todo -> In kd kids) by (intros kd Hk; apply (Permutation_in _ Hperm Hk)).
    pose proof (kids_fold_no_panic fuel d keep f lo hi es kids IHf Hes Hnd_es Hnd_kids Horig Hkids
                  todo [] live s msg Hfi Hndt Hsubt (fun _ _ => eq_refl) Hsegs0) as Hnp.
    rewrite <- E0 in Hnp.
    destruct (fold_res (spill_kid_step f) todo (Branches es, s)) as [[d1 s1]|m|e] eqn:Hfold; cbn [bind].
    2:{ intros E. apply Hnp. inversion E. reflexivity. }
    2:{ discriminate. }
    rewrite E0 in Hfold at 1.
    destruct (kids_fold fuel d keep f lo hi es kids (spill_node_spec fuel d keep f) Hes Hnd_es Hnd_kids Horig Hkids
                todo [] live s d1 s1 Hfi Hndt Hsubt (fun _ _ => eq_refl) Hsegs0 Hfold)
      as (outs & a1 & dd1 & g1 & Ed1 & _ & _ & Hsegs & _).
    destruct (spill_tail_total (Node pg npg o sq (Branches es) kids) d1 s1) as [r ->]; [|discriminate].
    subst d1. cbn [dlen]. destruct es as [|e0 es']; [exfalso; apply Hes_ne; reflexivity|].
    cbn [flat_map]. cbn [chb] in Hsegs.
    destruct (Hsegs _ _ e0 (or_introl eq_refl)) as (Hne0 & _).
    unfold llen. rewrite app_length. destruct (seg_of outs e0); [exfalso; apply Hne0; reflexivity | cbn [length]; lia].
Qed.

(* ====================================================================== *)
(** * 3. [spill_root] *)

Definition spill_root_first (n : node) (s : txs) : res (spill_out * txs) :=
  match n_data n with
  | Leaves [] => let '(n1, s') := write_node s (set_kids n []) in Ok ((n_orig n, ([], n_page n1), []), s')
  | _ => spill_node fuel0 n s end.

Lemma spill_root_unfold : forall f n s,
  spill_root (S f) n s =
  bind (spill_root_first n s) (fun '(out, s1) =>
    let '(_, (fk, p), sibs) := out in
    match sibs with [] => Ok (p, s1) | _ => spill_root f (Node 0 0 (Some fk) 0 (Branches ((fk, p) :: sibs)) []) s1 end).
Proof. reflexivity. Qed.

(* the new root levels: a branch node without kids *)
Lemma root_loop_no_panic : forall f fk p sibs s msg,
  spill_root f (Node 0 0 (Some fk) 0 (Branches ((fk, p) :: sibs)) []) s <> Panic msg.
Proof.
  induction f as [|f IH]; intros fk p sibs s msg; [discriminate|]. rewrite spill_root_unfold.
  unfold spill_root_first. cbn [n_data]. change fuel0 with (S 63). rewrite spill_node_nokids by reflexivity.
  destruct (spill_tail_total (Node 0 0 (Some fk) 0 (Branches ((fk, p) :: sibs)) []) (Branches ((fk, p) :: sibs)) s)
    as [[[[o1 [fk1 p1]] sibs1] s1] E].
  { cbn [dlen]. unfold llen. cbn [length]. lia. }
  cbn [n_data] in *. rewrite E. cbn [bind]. destruct sibs1; [discriminate | apply IH].
Qed.

Theorem spill_root_no_panic : forall fuel d keep f live n s msg, fresh_inv live s ->
  (n_data n = Leaves [] \/ swf fuel d keep None None n) -> spill_root f n s <> Panic msg.
Proof.
  intros fuel d keep f live n s msg Hfi Hn. destruct f as [|f]; [discriminate|]. rewrite spill_root_unfold.
  assert (H1 : forall m, spill_root_first n s <> Panic m).
  { intros m. unfold spill_root_first. destruct Hn as [E|Hswf].
    - rewrite E. destruct (write_node s (set_kids n [])). discriminate.
    - pose proof (swf_nonempty _ _ _ _ _ _ Hswf) as Hpos. pose proof (spill_node_no_panic fuel d keep fuel0 live None None n s m Hfi Hswf) as Hnp.
      destruct (n_data n) as [[|e l]|es]; [cbn in Hpos; lia | exact Hnp | exact Hnp]. }
  destruct (spill_root_first n s) as [[[[o1 [fk1 p1]] sibs1] s1]|m|e] eqn:E; cbn [bind].
  - destruct sibs1; [discriminate | apply root_loop_no_panic].
  - exfalso. exact (H1 m eq_refl).
  - discriminate.
Qed.

(* ====================================================================== *)
(** * 4. [spill_bucket] *)

Lemma meta_step_total : forall d keep h bb l s0 nm r nx r0 nx0,
  SRoot d keep h bb -> BucketView d h bb l -> h <= fuel0 -> In (LBk nm r0 nx0) l ->
  exists b' s', meta_step d (bb, s0) (nm, r, nx) = Ok (b', s').
Proof.
  intros d keep h bb l s0 nm r nx r0 nx0 HS HV Hh Hin.
  pose proof (SRoot_wf _ _ _ _ HS) as Hw. pose proof (bucket_view_sorted _ _ _ _ Hw HV) as Hs.
  unfold meta_step. rewrite (b_lookup_view d h bb l nm Hw HV Hh). cbn [bind].
  destruct (In_nth_error _ _ Hin) as [i Hi]. pose proof (alookup_nth l i _ Hs Hi) as Ha. cbn [lkey] in Ha.
  rewrite Ha. cbn [is_kv].
  destruct (b_modify_view d h bb l (OpIns (LBk nm r nx)) s0 Hw HV Hh) as (b2 & s2 & E2 & _). eauto.
Qed.

Lemma meta_fold_total : forall d keep h (ms : list meta) bb l s0,
  SRoot d keep h bb -> BucketView d h bb l -> h <= fuel0 -> NoDup (map m_name ms) ->
  (forall m, In m ms -> exists r0 nx0, In (LBk (m_name m) r0 nx0) l) ->
  exists r, fold_res (meta_step d) ms (bb, s0) = Ok r.
Proof.
  intros d keep h. induction ms as [|[[nm r] nx] ms IH]; intros bb l s0 HS HV Hh Hnd Hall; cbn [fold_res]; [eauto|].
  cbn [map] in Hnd. inversion Hnd as [|? ? Hni Hnd']; subst.
  destruct (Hall _ (or_introl eq_refl)) as (r0 & nx0 & Hin). cbn [m_name fst] in Hin.
  destruct (meta_step_total d keep h bb l s0 nm r nx r0 nx0 HS HV Hh Hin) as (b' & s' & Est). rewrite Est. cbn [bind].
  destruct (meta_step_replace d keep h bb l s0 nm r nx r0 nx0 b' s' HS HV Hh Hin Est) as (A1 & A2 & _).
  apply (IH b' _ s' A1 A2 Hh Hnd').
  intros m Hm. destruct (Hall m (or_intror Hm)) as (r1 & nx1 & Hin1). exists r1, nx1.
  apply (in_map (patch [(nm, r, nx)])) in Hin1. rewrite patch_other in Hin1; [exact Hin1|].
  cbn [lkey]. intros E. apply Hni. rewrite <- E. apply (in_map m_name _ _ Hm).
Qed.

(** ** which [Err]s the spill can return (a property of the code alone) *)

Definition fuel_err : String.string := "fuel"%string.
Definition ord_err1 : String.string := "order oracle exhausted"%string.
Definition ord_err2 : String.string := "order oracle names unknown bucket"%string.
Definition commit_errs (e : String.string) : Prop := e = fuel_err \/ e = ord_err1 \/ e = ord_err2.

(* [Ok], or an [Err] among the allowed ones; never a [Panic] *)
Definition okerr {A} (allowed : String.string -> Prop) (r : res A) : Prop :=
  match r with Ok _ => True | Panic _ => False | Err e => allowed e end.

Lemma okerr_intro : forall {A} (allowed : String.string -> Prop) (r : res A),
  (forall m, r <> Panic m) -> (forall e, r = Err e -> allowed e) -> okerr allowed r.
Proof. intros A allowed [a|m|e] H1 H2; cbn [okerr]; [exact I | exact (H1 m eq_refl) | exact (H2 e eq_refl)]. Qed.

Lemma first_key_not_err : forall dd e, first_key dd <> Err e.
Proof. intros [[|x l]|[|x es]] e; cbn [first_key]; discriminate. Qed.

Lemma insert_branch_not_err : forall es o br e, insert_branch es o br <> Err e.
Proof.
  intros es o br e. unfold insert_branch. destruct (bsearch (map fst es) _) as [[|] i]; destruct o; discriminate.
Qed.

Lemma fold_res_err : forall {A B} (step : A -> B -> res A) (allowed : String.string -> Prop) xs,
  (forall x a e, In x xs -> step a x = Err e -> allowed e) ->
  forall a0 e, fold_res step xs a0 = Err e -> allowed e.
Proof.
  intros A B step allowed. induction xs as [|x xs IH]; intros Hstep a0 e H; cbn [fold_res] in H; [discriminate|].
  destruct (step a0 x) as [a1|m1|e1] eqn:E; cbn [bind] in H; [|discriminate|].
  - eapply IH; [|exact H]. intros y a e' Hy. apply Hstep. now right.
  - inversion H; subst e1. eapply Hstep; [now left | exact E].
Qed.

Lemma spill_tail_not_err : forall n d1 s1 e, spill_tail n d1 s1 <> Err e.
Proof.
  intros n d1 s1 e H. unfold spill_tail in H. destruct (split s1 d1) as [d0 rest].
  destruct (write_node s1 (set_kids (set_data n d0) [])) as [n1 s2].
  destruct (match rest with [] => (n1, s2) | _ => write_node s2 n1 end) as [n2 s3].
  destruct (fold_res spill_sib_step rest ([], s3)) as [[sibs s4]|m1|e1] eqn:Ef; cbn [bind] in H; [|discriminate|].
  - destruct (first_key (n_data n2)) as [fk| |e2] eqn:Ek; cbn [bind] in H; try discriminate.
    exact (first_key_not_err _ _ Ek).
  - apply (fold_res_err spill_sib_step (fun _ => False) rest) in Ef; [exact Ef|].
    intros dd [l s0] e2 _ E. unfold spill_sib_step in E.
    destruct (first_key dd) as [fk| |e3] eqn:Ek; cbn [bind] in E; [|discriminate|exact (first_key_not_err _ _ Ek)].
    destruct (write_node s0 (Node 0 0 (Some fk) 0 dd [])). discriminate.
Qed.

Theorem spill_node_err : forall f n s e, spill_node f n s = Err e -> e = fuel_err.
Proof.
  induction f as [|f IH]; intros n s e H; [inversion H; reflexivity|]. rewrite spill_node_unfold in H.
  destruct (kid_keys (n_kids n)) as [ks|m1|e1] eqn:Ek; cbn [bind] in H; [|discriminate|].
  2:{ exfalso. unfold kid_keys in Ek. apply (fold_res_err _ (fun _ => False)) in Ek; [exact Ek|].
      intros k a e2 _ E. destruct (first_key (n_data k)) as [fk| |e3] eqn:Ef; cbn [bind] in E; try discriminate.
      exact (first_key_not_err _ _ Ef). }
  destruct (fold_res (spill_kid_step f) (map snd (isort_by fst ks)) (n_data n, s)) as [[d1 s1]|m1|e1] eqn:Ef; cbn [bind] in H;
    [exfalso; exact (spill_tail_not_err _ _ _ _ H) | discriminate |].
  inversion H; subst e1. apply (fold_res_err _ (fun e => e = fuel_err)) in Ef; [exact Ef|].
  intros k [dd s0] e2 _ E. unfold spill_kid_step in E.
  destruct (spill_node f k s0) as [[[[ko kb] sibs] sk]|m2|e3] eqn:Es; cbn [bind] in E; [|discriminate|].
  2:{ inversion E; subst e3. exact (IH _ _ _ Es). }
  destruct dd as [l|es]; [discriminate|].
  destruct (insert_branch es ko kb) as [es1|m3|e4] eqn:Ei; cbn [bind] in E; [|discriminate|exfalso; exact (insert_branch_not_err _ _ _ _ Ei)].
  destruct (fold_res (fun e0 sb => insert_branch e0 None sb) sibs es1) as [es2|m4|e5] eqn:Ei2; cbn [bind] in E; try discriminate.
  exfalso. apply (fold_res_err _ (fun _ => False)) in Ei2; [exact Ei2|].
  intros sb a e6 _ E6. exact (insert_branch_not_err _ _ _ _ E6).
Qed.

Theorem spill_root_err : forall f n s e, spill_root f n s = Err e -> e = fuel_err.
Proof.
  induction f as [|f IH]; intros n s e H; [inversion H; reflexivity|]. rewrite spill_root_unfold in H.
  destruct (spill_root_first n s) as [[[[o1 [fk1 p1]] sibs1] s1]|m|e1] eqn:E; cbn [bind] in H; [|discriminate|].
  - destruct sibs1; [discriminate | exact (IH _ _ _ H)].
  - inversion H; subst e1. unfold spill_root_first in E.
    destruct (n_data n) as [[|x l]|es]; [destruct (write_node s (set_kids n [])); discriminate | |]; exact (spill_node_err _ _ _ _ E).
Qed.

(** ** the recursion over the bucket tree *)
Definition SBOK (d : disk) (keep : list N) (rec : bucket -> txs -> list bytes -> res (N * N * txs * list bytes)) : Prop :=
  forall live b s ord m, fresh_inv live s -> (forall x, In x keep -> In x live) -> unwritten keep s ->
    SReady d keep b -> OvlAbs d b m -> okerr commit_errs (rec b s ord).

Lemma okerr_fold_res : forall {A B} (step : A -> B -> res A) (Iv : A -> Prop) (allowed : String.string -> Prop) xs,
  (forall x a, In x xs -> Iv a -> (forall a', step a x = Ok a' -> Iv a') /\ okerr allowed (step a x)) ->
  forall a0, Iv a0 -> okerr allowed (fold_res step xs a0).
Proof.
  intros A B step Iv allowed. induction xs as [|x xs IH]; intros Hstep a0 H0; cbn [fold_res]; [exact I|].
  destruct (Hstep x a0 (or_introl eq_refl) H0) as [S1 S2]. destruct (step a0 x) as [a1|m1|e1]; cbn [bind].
  - apply IH; [intros y a Hy; apply Hstep; now right | now apply S1].
  - exact S2.
  - exact S2.
Qed.

Lemma sub_step_ok : forall d keep live s subs rec, SBOK d keep rec ->
  fresh_inv live s -> (forall x, In x keep -> In x live) -> unwritten keep s ->
  (forall nm sb, In (nm, sb) subs -> SReady d keep sb /\ exists ms, OvlAbs d sb ms) ->
  forall x acc, SubInv d live s subs acc -> okerr commit_errs (sub_step rec acc x).
Proof.
  intros d keep live s subs rec HR Hfi Hk Hu Hsubs x [[[l s0] o] remaining] HI.
  unfold sub_step. destruct o as [|nm o']; [right; left; reflexivity|].
  destruct (take_sub nm remaining) as [[sb rem']|] eqn:Et; [|right; right; reflexivity].
  destruct (take_sub_inv _ _ _ _ Et) as (a & b & Erem & ->).
  destruct HI as (I1 & I2 & I3 & I4 & I5 & A & D & Hfr & Hall).
  assert (Hin_rem : In (nm, sb) remaining) by (rewrite Erem; apply in_or_app; right; now left).
  destruct (Hsubs nm sb (I2 _ Hin_rem)) as [HS [ms Hms]].
  assert (Hk' : forall x, In x keep -> In x (A ++ live)) by (intros y Hy; apply in_or_app; right; apply Hk, Hy).
  pose proof (HR (A ++ live) sb s0 o' ms (fr_fresh _ _ _ _ _ Hfr) Hk'
                 (frame_unwritten _ _ _ _ _ keep Hfi Hfr Hk Hu) HS Hms) as Hok.
  destruct (rec sb s0 o') as [[[[r nx] s'] o'']|m|e]; cbn [bind okerr] in *; [exact I | exact Hok | exact Hok].
Qed.

Lemma SBOK_step : forall d keep f, SBOK d keep (spill_bucket f d) -> SBOK d keep (spill_bucket (S f) d).
Proof.
  intros d keep f HR live b s ord m Hfi Hk Hu HS HO.
  rewrite spill_bucket_unfold. destruct (is_dirty fuel0 b) eqn:Ed; cbn [negb]; [|exact I].
  inversion HS as [b0 Hd | b0 h l _ Hh HV HD Hnd Hsubs Hdisk]; subst b0; [congruence|].
  inversion HO as [b0 l0 ents Hbv HF]; subst b0 m.
  assert (El : l0 = l) by (apply (bucket_view_det d b); [exact Hbv | exists h; auto]). subst l0.
  assert (Hsubs' : forall nm sb, In (nm, sb) (b_subs b) -> SReady d keep sb /\ exists ms, OvlAbs d sb ms).
  { intros nm sb Hin. destruct (Hsubs nm sb Hin) as [(r0 & nx0 & Hl) HSb]. split; [exact HSb|].
    eapply sub_has_meaning; eauto. }
  assert (HI0 : SubInv d live s (b_subs b) ([], s, ord, b_subs b)).
  { cbn [SubInv]. split; [exact Hnd|]. split; [auto|]. split; [constructor|]. split; [intros ? []|].
    split; [intros x Hx; now right|]. exists [], []. split; [now apply frame_refl | constructor]. }
  pose proof (okerr_fold_res (sub_step (spill_bucket f d)) (SubInv d live s (b_subs b)) commit_errs (b_subs b)) as Hok1.
  specialize (Hok1 (fun x acc _ HI => conj
     (fun acc' E => proj1 (sub_step_inv d keep live s (b_subs b) _ (RecOK_all d keep f) Hfi Hk Hu Hsubs' x acc acc' HI E))
     (sub_step_ok d keep live s (b_subs b) _ HR Hfi Hk Hu Hsubs' x acc HI)) _ HI0).
  destruct (fold_res (sub_step (spill_bucket f d)) (b_subs b) ([], s, ord, b_subs b)) as [[[[metas s1] ord1] rem]|m1|e1] eqn:Hf1;
    cbn [bind]; [|exact Hok1|exact Hok1].
  destruct (sub_fold_inv d keep live s (b_subs b) _ (RecOK_all d keep f) Hfi Hk Hu Hsubs' (b_subs b) _ _ HI0 Hf1)
    as [(_ & _ & J3 & _ & J5 & A & D & Hfr & Hms) Hlen].
  assert (Hall : forall mt, In mt metas -> exists r0 nx0, In (LBk (m_name mt) r0 nx0) l).
  { intros mt Hmt. rewrite Forall_forall in Hms. destruct (Hms mt Hmt) as (sb & _ & X1 & _).
    destruct (Hsubs _ _ X1) as [Hex _]. exact Hex. }
  assert (Hcase : (b_rootn b = None /\ metas = []) \/ SRoot d keep h b).
  { unfold SRoot, DRoot in *. destruct (b_rootn b) as [n|]; [right; exact HD|].
    destruct metas as [|mt metas]; [left; auto|]. right.
    destruct HD as [HD1 HD2]. split; [|exact HD1]. apply HD2.
    inversion Hms as [|? ? (sb & _ & X1 & _) _]; subst. intros E. rewrite E in X1. destruct X1. }
  destruct Hcase as [[Ern ->] | HSR].
  - cbn [fold_res bind]. unfold spill_tail_b. rewrite Ern. exact I.
  - destruct (meta_fold_total d keep h metas b l s1 HSR HV Hh J3 Hall) as [[b1 s2] Hf2]. rewrite Hf2. cbn [bind].
    destruct (meta_fold_replace d keep h metas b l s1 b1 s2 HSR HV Hh J3 Hall Hf2) as (B1 & B2 & _ & _ & _ & B6).
    unfold spill_tail_b. destruct (b_rootn b1) as [rn|] eqn:Ern; [|exact I].
    unfold SRoot in B1. rewrite Ern in B1. destruct B1 as [HI HRd]. unfold BucketView in B2. rewrite Ern in B2.
    pose proof (frame_seqc_r _ _ _ _ _ _ Hfr B6) as Hfr2. pose proof (fr_fresh _ _ _ _ _ Hfr2) as Hfi2.
    pose proof (root_ready_swf d keep h rn _ (Inv_wf_node _ _ _ _ _ HI) B2 (Inv_RRdy_root_ready _ _ _ _ HI HRd)) as Hsw.
    pose proof (spill_root_no_panic h d keep fuel0 (A ++ live) rn s2) as Hnp3.
    pose proof (spill_root_err fuel0 rn s2) as Herr3.
    destruct (spill_root fuel0 rn s2) as [[p s3]|m3|e3]; cbn [bind okerr].
    + exact I.
    + exact (Hnp3 m3 Hfi2 Hsw eq_refl).
    + left. exact (Herr3 e3 eq_refl).
Qed.

(* spilling the bucket tree that rebalance leaves: [Ok], or out of fuel, or the oracle [ord] is not an order of
   the opened dirty sub-buckets *)
Theorem spill_bucket_ok : forall f d keep live b s ord m,
  fresh_inv live s -> (forall x, In x keep -> In x live) -> (forall x, In x keep -> wr_get (wr s) x = None) ->
  SReady d keep b -> OvlAbs d b m -> okerr commit_errs (spill_bucket f d b s ord).
Proof.
  intros f d keep.
  assert (G : SBOK d keep (spill_bucket f d)).
  { induction f as [|f IH]; [intros live b s ord m _ _ _ _ _; left; reflexivity | now apply SBOK_step]. }
  intros live b s ord m Hfi Hk Hu HS HO. exact (G live b s ord m Hfi Hk Hu HS HO).
Qed.

Corollary spill_bucket_no_panic : forall f d keep live b s ord m msg,
  fresh_inv live s -> (forall x, In x keep -> In x live) -> (forall x, In x keep -> wr_get (wr s) x = None) ->
  SReady d keep b -> OvlAbs d b m -> spill_bucket f d b s ord <> Panic msg.
Proof.
  intros f d keep live b s ord m msg Hfi Hk Hu HS HO E.
  pose proof (spill_bucket_ok f d keep live b s ord m Hfi Hk Hu HS HO) as H. rewrite E in H. exact H.
Qed.

(* ====================================================================== *)
(** * 5. Which [Err]s rebalance can return (a property of the code alone): only the model's fuel *)

Lemma fold_left_err : forall {A B} (F : res A -> B -> res A) (allowed : String.string -> Prop),
  (forall x r, (forall a, r <> Ok a) -> F r x = r) ->
  (forall x a e, F (Ok a) x = Err e -> allowed e) ->
  forall xs a0 e, fold_left F xs (Ok a0) = Err e -> allowed e.
Proof.
  intros A B F allowed HF Hstep. induction xs as [|x xs IH]; intros a0 e H; cbn [fold_left] in H; [discriminate|].
  destruct (F (Ok a0) x) as [a1|m1|e1] eqn:E.
  - eapply IH; eauto.
  - rewrite fold_left_bad in H; [discriminate | exact HF | intros; discriminate].
  - rewrite fold_left_bad in H; [|exact HF|intros; discriminate]. inversion H; subst e1. eapply Hstep; eauto.
Qed.

Lemma merge_data_not_err : forall a b e, merge_data a b <> Err e.
Proof. intros [l1|e1] [l2|e2] e; cbn [merge_data]; discriminate. Qed.

Lemma try_merge_not_err : forall d par k s e, try_merge d par k s <> Err e.
Proof.
  intros d par k s e H. unfold try_merge in H.
  destruct (negb (needs_merging s k)); [discriminate|]. destruct (n_data par) as [l|es]; [discriminate|].
  destruct ((llen es =? 1)%N && (0 <? dlen (n_data k))%N); [discriminate|].
  destruct (n_orig k) as [ok|]; [|discriminate].
  destruct (bsearch (map fst es) ok) as [[|] idx]; [|discriminate].
  destruct (0 <? dlen (n_data k))%N; [|discriminate].
  destruct (if (idx =? 0)%N then nthN es 1 else nthN es (idx - 1)) as [[kq q]|]; [|discriminate].
  destruct (find_kid q (n_kids par)) as [sb|].
  - cbn [bind] in H. destruct (merge_data (n_data sb) (n_data k)) as [md|m1|e1] eqn:Emd; cbn [bind] in H; try discriminate.
    exact (merge_data_not_err _ _ _ Emd).
  - destruct (dget d q) as [a|]; [|discriminate]. cbn [next_seq bind] in H.
    destruct (merge_data (n_data (node_of_page q a (seqc s))) (n_data k)) as [md|m1|e1] eqn:Emd; cbn [bind] in H; try discriminate.
    exact (merge_data_not_err _ _ _ Emd).
Qed.

Theorem rebalance_kids_err : forall fuel d n s e, rebalance_kids fuel d n s = Err e -> e = fuel_err.
Proof.
  induction fuel as [|f IH]; intros d n s e H; [inversion H; reflexivity|]. cbn [rebalance_kids] in H.
  match type of H with fold_left ?F0 _ _ = _ => set (F := F0) in H end.
  apply (fold_left_err F (fun e => e = fuel_err)) in H; [exact H | |].
  - intros x r Hr. unfold F. destruct r as [a0| |]; cbn [bind]; [exfalso; eapply Hr; eauto | reflexivity | reflexivity].
  - intros x [n0 s0] e0 E. unfold F in E. cbn [bind] in E.
    destruct (find (fun k => N.eqb (n_seq k) x) (n_kids n0)) as [k|]; [|discriminate].
    destruct (if is_leaf (n_data k) then Ok (k, s0) else rebalance_kids f d k s0) as [[k1 s1]|m1|e1] eqn:Ek; cbn [bind] in E.
    + exfalso. exact (try_merge_not_err _ _ _ _ _ E).
    + discriminate.
    + inversion E; subst e1. destruct (is_leaf (n_data k)); [discriminate | exact (IH _ _ _ _ Ek)].
Qed.

Lemma ensure_root_not_err : forall d b s e, ensure_root d b s <> Err e.
Proof.
  intros d b s e. unfold ensure_root. destruct (b_rootn b); [discriminate|].
  destruct (dget d (b_root_page b)); discriminate.
Qed.

Theorem merge_nodes_err : forall d b s e, merge_nodes d b s = Err e -> e = fuel_err.
Proof.
  intros d b s e H. unfold merge_nodes in H.
  destruct (ensure_root d b s) as [[root s0]|m1|e1] eqn:Er; cbn [bind] in H;
    [|discriminate|exfalso; exact (ensure_root_not_err _ _ _ _ Er)].
  destruct (if is_leaf (n_data root) then Ok (root, s0) else rebalance_kids fuel0 d root s0) as [[root1 s1]|m1|e1] eqn:E1;
    cbn [bind] in H.
  - destruct (needs_merging s1 root1 && negb (is_leaf (n_data root1)) && (dlen (n_data root1) =? 1)%N).
    + destruct (n_data root1) as [l1|[|[k0 q] rest]]; discriminate.
    + destruct (negb (is_leaf (n_data root1)) && (dlen (n_data root1) =? 0)%N); discriminate.
  - discriminate.
  - inversion H; subst e1. destruct (is_leaf (n_data root)); [discriminate | exact (rebalance_kids_err _ _ _ _ _ E1)].
Qed.

Theorem rebalance_err : forall f d b s e, rebalance f d b s = Err e -> e = fuel_err.
Proof.
  induction f as [|f IH]; intros d b s e H; [inversion H; reflexivity|]. cbn [rebalance] in H.
  destruct (negb (is_dirty fuel0 b)); [discriminate|].
  match type of H with bind (fold_left ?F0 _ _) _ = _ => set (F := F0) in H end.
  destruct (fold_left F (b_subs b) (Ok ([], s))) as [[subs' s1]|m1|e1] eqn:Ef; cbn [bind] in H.
  - exact (merge_nodes_err _ _ _ _ H).
  - discriminate.
  - inversion H; subst e1. apply (fold_left_err F (fun e => e = fuel_err)) in Ef; [exact Ef | |].
    + intros x r Hr. unfold F. destruct r as [a0| |]; cbn [bind]; [exfalso; eapply Hr; eauto | reflexivity | reflexivity].
    + intros x [l s0] e0 E. unfold F in E. cbn [bind] in E.
      destruct (rebalance f d (snd x) s0) as [[bx sx]|m2|e2] eqn:Ex; cbn [bind] in E; try discriminate.
      inversion E; subst e2. exact (IH _ _ _ _ Ex).
Qed.

(* ====================================================================== *)
(** * 6. Assembly: [commit] and [run_tx] *)

(* what the layers say about the state after the operations and a successful rebalance (the hypotheses of
   [spill_bucket_ok]); [run_tx_commit_ready] of EngineRefines without the assumption that the transaction completes *)
Lemma rebalanced_ready : forall st R ops root' s' b1 s1 m, db_strict st -> alloc_ok st R ->
  tx_fold st ops (root_bucket st, begin_w st) = Ok (root', s') ->
  OvlAbs (d_disk st) root' m -> tx_frees (begin_w st) s' ->
  rebalance fuel0 (d_disk st) root' s' = Ok (b1, s1) ->
  fresh_inv (live_of st R) s1 /\ wr s1 = [] /\ SReady (d_disk st) R b1 /\ OvlAbs (d_disk st) b1 m.
Proof.
  intros st R ops root' s' b1 s1 m Hdb HA Hf Ha Hfr Hr.
  destruct (tx_ops_SDeep' st ops root' s' Hdb Hf) as [f HD].
  destruct (SDeepF_LDeep _ _ _ _ HD) as [v Hv]. pose proof (LDeep_Deep _ _ _ _ _ Hv) as HDeep.
  destruct (rebalance_view fuel0 f _ _ _ v _ _ HDeep Hr) as (_ & Tx & _).
  destruct Hfr as (F1 & _ & F3 & F4 & F5 & _). destruct Tx as (T1 & _ & T3 & T4 & T5 & _).
  destruct (begin_w_fields st) as (W1 & _).
  pose proof HA as (_ & _ & _ & _ & _ & _ & _ & HC & _).
  split. { eapply fresh_inv_ext; [| | |apply (begin_w_fresh st R HA)]; congruence. }
  split; [congruence|]. split.
  - eapply (rebalance_SReady (d_disk st) R HC fuel0 f 9); eauto; [unfold fuel0; lia|]. eapply tx_ops_XDF; eauto.
  - eapply rebalance_OvlAbs; eauto.
Qed.

Theorem run_tx_ok : forall st ops ord, db_ok st -> dget (d_disk st) 0%N = None -> db_depth st ->
  Forall (op_ok (d_disk st)) ops -> okerr commit_errs (run_tx st ops ord).
Proof.
  intros st ops ord [Hdb [R HA]] Hz Hdd Hops.
  destruct (ops_refine st ops (db_strict_pages_wf st Hdb) Hops) as (root' & s' & Hf & _ & Ha & Hfr).
  rewrite run_tx_fold, Hf. cbn [bind fst snd]. rewrite commit_apply_wr. unfold commit_with_apply_wr.
  destruct (tx_ops_SDeep' st ops root' s' Hdb Hf) as [f HD].
  destruct (SDeepF_LDeep _ _ _ _ HD) as [v Hv]. pose proof (LDeep_Deep _ _ _ _ _ Hv) as HDeep.
  pose proof (tx_ops_DD st ops root' s' Hdb Hdd Hz Hf) as HDD.
  pose proof (fun m => rebalance_no_panic' fuel0 f (d_disk st) s' root' v m HDeep HDD) as Hnp. pose proof (rebalance_err fuel0 (d_disk st) root' s') as Herr.
  destruct (rebalance fuel0 (d_disk st) root' s') as [[b1 s1]|m1|e1] eqn:Hr; cbn [bind okerr].
  2:{ exact (Hnp m1 eq_refl). }
  2:{ left. exact (Herr e1 eq_refl). }
  destruct (rebalanced_ready st R ops root' s' b1 s1 _ Hdb HA Hf Ha Hfr Hr) as (Hfi & Hwr & HS & HO).
  assert (Hk : forall x, In x R -> In x (live_of st R)) by (intros x Hx; now apply R_live).
  assert (Hu : forall x, In x R -> wr_get (wr s1) x = None) by (intros x _; rewrite Hwr; reflexivity).
  pose proof (spill_bucket_ok fuel0 (d_disk st) R (live_of st R) b1 s1 ord _ Hfi Hk Hu HS HO) as Hsp.
  destruct (spill_bucket fuel0 (d_disk st) b1 s1 ord) as [[[[r nx] s2] ord']|m2|e2]; cbn [bind okerr] in *; [|exact Hsp|exact Hsp].
  cbv zeta. destruct (tx_allocate _ _) as [[flp fln] s4]. exact I.
Qed.

(* PANIC FREEDOM: a transaction on a well-formed committed state of uniform depth never panics *)
Theorem run_tx_no_panic : forall st ops ord msg, db_okz st -> db_depth st ->
  Forall (op_ok (d_disk st)) ops -> run_tx st ops ord <> Panic msg.
Proof.
  intros st ops ord msg [Hok Hz] Hdd Hops E.
  pose proof (run_tx_ok st ops ord (db_ok'_db_ok st Hok) Hz Hdd Hops) as H. rewrite E in H. exact H.
Qed.

(* ... and ends in [Ok] or in one of three [Err]s: the model's own fuel, or the order oracle [ord] is not a
   spill order of the opened dirty sub-buckets *)
Theorem run_tx_result : forall st ops ord, db_okz st -> db_depth st -> Forall (op_ok (d_disk st)) ops ->
  (exists st', run_tx st ops ord = Ok st') \/ run_tx st ops ord = Err fuel_err \/
  run_tx st ops ord = Err ord_err1 \/ run_tx st ops ord = Err ord_err2.
Proof.
  intros st ops ord [Hok Hz] Hdd Hops.
  pose proof (run_tx_ok st ops ord (db_ok'_db_ok st Hok) Hz Hdd Hops) as H.
  destruct (run_tx st ops ord) as [st'|m|e]; cbn [okerr] in H; [left; eauto | destruct H |].
  right. destruct H as [-> | [-> | ->]]; auto.
Qed.

Print Assumptions spill_node_no_panic.
Print Assumptions spill_root_no_panic.
Print Assumptions spill_bucket_ok.
Print Assumptions run_tx_ok.
Print Assumptions run_tx_no_panic.
Print Assumptions run_tx_result.
