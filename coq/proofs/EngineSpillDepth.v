(* The spill re-establishes uniform depth.

   [PSh h d q] / [SSh h d n]: the SHAPE part of uniform depth (exact height h) of a committed page / of an overlay
   node about to be spilled; [Used s s'] : the pages handed out between two states of a transaction (a set that
   needs no witness); [laterU d keep s s' Q]: Q holds of every disk obtained from a write set that agrees with
   [wr s'] on [Used s s'] and leaves [keep] alone -- in particular of the disk committed from any later state.
   Results: [spill_node_shape] (the pages written for a node of exact height h head trees of exact height h),
   [spill_root_shape] (a new root level adds one), [spill_bucket_depth], [commit_depth], [run_tx_depth]
   (the committed state has uniform depth again), [run_txs_no_panic] (panic freedom of histories from
   [init_db]). *)
From Coq Require Import List NArith Bool Arith Lia ZifyN ZifyNat ZifyBool Permutation.
From Coq.Strings Require Import Byte.
From Jamm Require Spec.
From Jamm Require Import Bytes BytesFacts Tree Cursor SearchFacts Engine EngineAbs EngineFacts EngineMergeFacts.
From Jamm Require Import EngineModifyFacts EngineSpillFacts EnginePathFacts EngineBridgeFacts EngineRebalanceFacts.
From Jamm Require Import EngineTxInvFacts EngineSpillBucketFacts EngineRefines EngineOwnDefs EngineOwnSpill EngineAllocInv.
From Jamm Require Import EngineDepth EngineNoPanic.
Import ListNotations.
Import Coq.Strings.String.StringSyntax. Delimit Scope string_scope with string.
Local Open Scope list_scope. Local Open Scope nat_scope.
Set Warnings "-abstract-large-number".
Arguments N.add : simpl never. Arguments N.sub : simpl never. Arguments N.mul : simpl never.
Arguments N.div : simpl never. Arguments N.ltb : simpl never. Arguments N.leb : simpl never.
Arguments N.eqb : simpl never.

(* ====================================================================== *)
(** * 1. Shape *)

Definition TT : N -> Prop := fun _ => True.
Definition PSh (h : nat) (d : disk) (q : N) : Prop := PDp TT h d q.

Lemma ent_ok_TT : forall l, Forall (ent_ok TT) l.
Proof. intros l. apply Forall_forall. intros [k v|k r nx] _; exact I. Qed.

Lemma PDp_PSh : forall G h d q, PDp G h d q -> PSh h d q.
Proof. intros G h d q H. eapply PDp_mono; [|exact H]. intros; exact I. Qed.

Lemma NDp_mono : forall (G G' : N -> Prop), (forall r, G r -> G' r) -> forall h d n, NDp G h d n -> NDp G' h d n.
Proof.
  intros G G' HG. induction h as [|h IH]; intros d n H; [exact H|]. destruct n as [p np o sq [l|es] ks].
  - rewrite NDp_leaf in *. destruct H as [E Hl]. split; [exact E|]. eapply Forall_impl; [|exact Hl]. intros e. now apply ent_ok_mono.
  - rewrite NDp_branch in *. destruct H as (E & Fe & Fk). split; [exact E|]. split.
    + eapply Forall_impl; [|exact Fe]. intros e. now apply PDp_mono.
    + eapply Forall_impl; [|exact Fk]. intros k. apply IH.
Qed.

(* the shape of an overlay node as the spill meets it: a child is its kid, or else a committed page *)
Fixpoint SSh (h : nat) (d : disk) (n : node) : Prop :=
  match h with O => False | S h' =>
    match n with
    | Node _ _ _ _ (Leaves _) _ => h' = O
    | Node _ _ _ _ (Branches es) ks =>
        h' <> O /\ Forall (fun e => match find_kid (snd e) ks with Some kd => SSh h' d kd | None => PSh h' d (snd e) end) es
    end end.

Lemma NDp_SSh : forall G h d n, NDp G h d n -> SSh h d n.
Proof.
  intros G. induction h as [|h IH]; intros d n H; [exact H|]. destruct n as [p np o sq [l|es] ks].
  - rewrite NDp_leaf in H. exact (proj1 H).
  - rewrite NDp_branch in H. destruct H as (E & Fe & Fk). cbn [SSh]. split; [exact E|].
    rewrite Forall_forall in *. intros e He. destruct (find_kid (snd e) ks) as [kd|] eqn:Ef.
    + apply IH. apply Fk. eapply EngineRebalanceFacts.find_kid_In; eauto.
    + eapply PDp_PSh. now apply Fe.
Qed.

(* a committed subtree all of whose pages are kept has the same shape on every disk that keeps them *)
Lemma PSh_stable : forall h fuel d d' keep q, (forall x, In x keep -> dget d' x = dget d x) ->
  stable fuel d keep q -> PSh h d q -> PSh h d' q.
Proof.
  unfold PSh. induction h as [|h IH]; intros fuel d d' keep q Hk Hst H; [exact H|].
  destruct fuel as [|f]; [destruct Hst|]. cbn [stable] in Hst. destruct Hst as [Hq Hst].
  rewrite PDp_S in *. destruct H as (a & Hg & Hb). rewrite Hg in Hst. exists a. split; [rewrite (Hk q Hq); exact Hg|].
  destruct (ap_body a) as [l|es]; [exact Hb|]. destruct Hb as [E Fe]. split; [exact E|].
  rewrite Forall_forall in *. intros e He. eapply IH; [exact Hk | apply Hst, He | apply Fe, He].
Qed.

(* ====================================================================== *)
(** * 2. The pages handed out between two states; statements about every later disk *)

Definition Src (s : txs) (q : N) : Prop := In q (free s) \/ (np s <= q)%N.
Definition Used (s s' : txs) (q : N) : Prop := Src s q /\ ~ Src s' q.

Lemma Src_frame : forall live s s' a dd q, frame live s s' a dd -> Src s' q -> Src s q.
Proof.
  intros live s s' a dd q F [H|H]; [left; apply (fr_free _ _ _ _ _ F), H | right].
  pose proof (fr_np _ _ _ _ _ F). lia.
Qed.

Lemma frame_alloc_used : forall live s s' a dd q, frame live s s' a dd -> In q a -> Used s s' q.
Proof.
  intros live s s' a dd q F Hq. split; [exact (fr_src _ _ _ _ _ F q Hq)|].
  destruct (fi_live _ _ (fr_fresh _ _ _ _ _ F) q (in_or_app _ _ _ (or_introl Hq))) as [A B].
  intros [H|H]; [exact (B H) | lia].
Qed.

Lemma used_stable : forall live s s' s'' a2 d2 q, frame live s' s'' a2 d2 -> Used s s' q ->
  wr_get (wr s'') q = wr_get (wr s') q.
Proof.
  intros live s s' s'' a2 d2 q F [_ Hn]. apply (fr_wr _ _ _ _ _ F). intros Hi. apply Hn. exact (fr_src _ _ _ _ _ F q Hi).
Qed.

Definition laterU (d : disk) (keep : list N) (s s' : txs) (Q : disk -> Prop) : Prop :=
  forall w' P, (forall q, Used s s' q -> wr_get w' q = wr_get (wr s') q) ->
    (forall x, In x keep -> wr_get w' x = None) -> Q (apply_wr w' P d).

(* a statement established between s and s1 holds for the wider stretch s0 .. s2 *)
Lemma laterU_mono : forall d keep L0 L1 L2 s0 s s1 s2 a0 d0 a1 d1 a2 d2 (Q : disk -> Prop),
  frame L0 s0 s a0 d0 -> frame L1 s s1 a1 d1 -> frame L2 s1 s2 a2 d2 ->
  laterU d keep s s1 Q -> laterU d keep s0 s2 Q.
Proof.
  intros d keep L0 L1 L2 s0 s s1 s2 a0 d0 a1 d1 a2 d2 Q F0 F1 F2 H w' P Hag Hk. apply H; [|exact Hk].
  intros q Hu. rewrite <- (used_stable _ _ _ _ _ _ _ F2 Hu). apply Hag. destruct Hu as [A B]. split.
  - eapply Src_frame; eauto.
  - intros C. apply B. eapply Src_frame; eauto.
Qed.

Lemma laterU_impl : forall d keep s s' (Q Q' : disk -> Prop), (forall d', Q d' -> Q' d') ->
  laterU d keep s s' Q -> laterU d keep s s' Q'.
Proof. intros d keep s s' Q Q' HQ H w' P A B. apply HQ. now apply H. Qed.

(* the later states of the same transaction qualify *)
Lemma laterU_later : forall d keep live s s' s'' a2 d2 (Q : disk -> Prop) P,
  laterU d keep s s' Q -> frame live s' s'' a2 d2 -> unwritten keep s'' -> Q (apply_wr (wr s'') P d).
Proof.
  intros d keep live s s' s'' a2 d2 Q P H F Hu. apply H; [|exact Hu].
  intros q Hq. eapply used_stable; eauto.
Qed.

(* ====================================================================== *)
(** * 3. The tail of [spill_node]: the pieces of data of exact height h are written to pages of exact height h *)

(* data whose children (if any) have exact height h - 1 on disk d' *)
Definition data_sh (h : nat) (d' : disk) (dd : ndata) : Prop :=
  match dd with
  | Leaves _ => h = 1
  | Branches es => exists h', h = S h' /\ h' <> O /\ Forall (fun e => PSh h' d' (snd e)) es
  end.

Lemma data_sh_page : forall h d' q a, dget d' q = Some a -> data_sh h d' (ap_body a) -> PSh h d' q.
Proof.
  intros h d' q a Hg H. unfold PSh. destruct (ap_body a) as [l|es] eqn:Eb; cbn [data_sh] in H.
  - subst h. rewrite PDp_S. exists a. split; [exact Hg|]. rewrite Eb. split; [reflexivity | apply ent_ok_TT].
  - destruct H as (h' & -> & Hh & Fe). rewrite PDp_S. exists a. split; [exact Hg|]. rewrite Eb. split; assumption.
Qed.

Lemma split_data_sh : forall s dd d0 rest h d', split s dd = (d0, rest) -> data_sh h d' dd ->
  Forall (data_sh h d') (d0 :: rest).
Proof.
  intros s [l|es] d0 rest h d' Hsp H.
  - destruct (split_leaves s l) as (l0 & ls & E & _). rewrite E in Hsp. inversion Hsp; subst d0 rest.
    constructor; [exact H|]. apply Forall_forall. intros x Hx. apply in_map_iff in Hx. destruct Hx as (p & <- & _). exact H.
  - destruct (split_branches s es) as (e0 & ess & E & Hcat & _). rewrite E in Hsp. inversion Hsp; subst d0 rest.
    destruct H as (h' & -> & Hh & Fe). rewrite <- Hcat in Fe. apply Forall_app in Fe. destruct Fe as [F0 Fr].
    constructor; [exists h'; auto|]. apply Forall_forall. intros x Hx. apply in_map_iff in Hx. destruct Hx as (p & <- & Hp).
    exists h'. split; [reflexivity|]. split; [exact Hh|]. rewrite Forall_forall in *. intros e He. apply Fr.
    apply in_concat. exists p. split; assumption.
Qed.

Definition shape_out (h : nat) (d' : disk) (out : list (bytes * N)) : Prop := Forall (fun sb => PSh h d' (snd sb)) out.

Lemma spill_tail_shape : forall d live n d1 s1 orig fk p sibs s' h w' P,
  fresh_inv live s1 -> spill_tail n d1 s1 = Ok ((orig, (fk, p), sibs), s') ->
  (forall q, Used s1 s' q -> wr_get w' q = wr_get (wr s') q) ->
  data_sh h (apply_wr w' P d) d1 -> shape_out h (apply_wr w' P d) ((fk, p) :: sibs).
Proof.
  intros d live n d1 s1 orig fk p sibs s' h w' P Hfi H Hag Hd.
  destruct (spill_tail_spec _ _ _ _ _ _ _ _ _ Hfi H) as (d0 & rest & alloc & stale & Esp & _ & Hpw & _ & Hin & Hfr & _).
  pose proof (split_data_sh _ _ _ _ _ _ Esp Hd) as Hps.
  assert (Hag' : wr_agree (map snd ((fk, p) :: sibs)) (wr s') w').
  { intros q Hq. apply Hag. eapply frame_alloc_used; [exact Hfr|]. apply (proj1 (Hin q Hq)). }
  pose proof (pieces_on_disk _ _ P d _ _ Hpw Hag') as Hdisk.
  unfold shape_out. revert Hps Hdisk. generalize (d0 :: rest). generalize ((fk, p) :: sibs). clear.
  intros sbs dds Hps Hdisk.
  induction Hdisk as [|sb dd sbs dds Hg _ IH]; [constructor|]. inversion Hps; subst. constructor; [|now apply IH].
  eapply data_sh_page; [exact Hg|]. cbn [mk_apage ap_body snd]. assumption.
Qed.

Lemma laterU_right : forall d keep L s s1 s2 a2 d2 (Q : disk -> Prop),
  frame L s1 s2 a2 d2 -> laterU d keep s s1 Q -> laterU d keep s s2 Q.
Proof.
  intros d keep L s s1 s2 a2 d2 Q F2 H w' P Hag Hk. apply H; [|exact Hk].
  intros q Hu. rewrite <- (used_stable _ _ _ _ _ _ _ F2 Hu). apply Hag. destruct Hu as [A B]. split; [exact A|].
  intros C. apply B. eapply Src_frame; eauto.
Qed.

Lemma laterU_left : forall d keep L s0 s s1 a0 d0 (Q : disk -> Prop),
  frame L s0 s a0 d0 -> laterU d keep s s1 Q -> laterU d keep s0 s1 Q.
Proof.
  intros d keep L s0 s s1 a0 d0 Q F0 H w' P Hag Hk. apply H; [|exact Hk].
  intros q [A B]. apply Hag. split; [eapply Src_frame; eauto | exact B].
Qed.

Lemma find_out_In : forall outs q out, find_out outs q = Some out -> In (q, out) outs.
Proof.
  unfold find_out. intros outs q out H. destruct (find (fun x => N.eqb (fst x) q) outs) as [[q' o]|] eqn:E; [|discriminate].
  cbn [option_map snd] in H. inversion H; subst o. apply find_some in E. destruct E as [E1 E2]. cbn [fst] in E2.
  apply N.eqb_eq in E2. subst q'. exact E1.
Qed.

(* ====================================================================== *)
(** * 4. [spill_node] writes trees of the node's exact height *)

Section NodeShape.
  Variables (fuel : nat) (d : disk) (keep : list N).

  Definition DS (f : nat) : Prop := forall live lo hi n s orig fk p sibs s' h,
    fresh_inv live s -> swf fuel d keep lo hi n -> SSh h d n ->
    spill_node f n s = Ok ((orig, (fk, p), sibs), s') ->
    laterU d keep s s' (fun d' => shape_out h d' ((fk, p) :: sibs)).

  Section FoldShape.
    Variables (f h' : nat) (lo hi : option bytes) (es : list (bytes * N)) (kids : list node).
    Variables (live0 : list N) (s0 : txs).
    Hypothesis IHf : DS f.
    Hypothesis Hes : keys_ok lo hi (map fst es).
    Hypothesis Hnd_es : NoDup (map snd es).
    Hypothesis Hnd_kids : NoDup (map n_page kids).
    Hypothesis Horig : forall kd, In kd kids -> exists k, n_orig kd = Some k /\ In (k, n_page kd) es.
    Hypothesis Hkids : forall l h e kd, In (l, h, e) (chb lo hi es) -> find_kid (snd e) kids = Some kd ->
                                        swf fuel d keep l h kd.
    Hypothesis Hksh : forall kd, In kd kids -> SSh h' d kd.

    Definition outs_sh (s : txs) (outs : list (N * list (bytes * N))) : Prop :=
      Forall (fun x => laterU d keep s0 s (fun d' => shape_out h' d' (snd x))) outs.

    Lemma kids_fold_shape : forall todo outs a0 dd0 s d1 s1,
      frame live0 s0 s a0 dd0 ->
      NoDup (map n_page todo) -> (forall kd, In kd todo -> In kd kids) ->
      (forall kd, In kd todo -> find_out outs (n_page kd) = None) ->
      (forall l h e, In (l, h, e) (chb lo hi es) -> keys_ok l h (map fst (seg_of outs e))) ->
      outs_sh s outs ->
      fold_res (spill_kid_step f) todo (Branches (flat_map (seg_of outs) es), s) = Ok (d1, s1) ->
      exists outs' a1 dd1, d1 = Branches (flat_map (seg_of outs') es) /\ frame live0 s0 s1 a1 dd1 /\ outs_sh s1 outs' /\
        (forall q, find_out outs q <> None \/ In q (map n_page todo) -> find_out outs' q <> None).
    Proof.
      induction todo as [|kd todo IH]; intros outs a0 dd0 s d1 s1 F0 Hnd Hsub Hnone Hsegs Hsh H; cbn [fold_res] in H.
      - inversion H; subst d1 s1. exists outs, a0, dd0. split; [reflexivity|]. split; [exact F0|]. split; [exact Hsh|]. intros q [Hq|[]]. exact Hq.
      - apply bind_ok_inv in H. destruct H as ([d2 s2] & Hstep & H).
        pose proof (fr_fresh _ _ _ _ _ F0) as Hfi.
        assert (Hkd : In kd kids) by (apply Hsub; now left).
        assert (Hsp : exists ko fk p sibs, spill_node f kd s = Ok ((ko, (fk, p), sibs), s2)).
        { unfold spill_kid_step in Hstep. destruct (spill_node f kd s) as [[[[ko [fk p]] sibs] sk]|m|e]; cbn [bind] in Hstep; try discriminate.
          destruct (insert_branch (flat_map (seg_of outs) es) ko (fk, p)) as [es1| |]; cbn [bind] in Hstep; try discriminate.
          destruct (fold_res (fun e sb => insert_branch e None sb) sibs es1) as [es2| |]; cbn [bind] in Hstep; try discriminate.
          inversion Hstep; subst. eauto. }
        destruct Hsp as (ko & fk & p & sibs & Hsp).
        destruct (kid_step_eval fuel d keep f lo hi es kids Hes Hnd_es Hnd_kids Horig Hkids kd outs _ s ko fk p sibs s2 Hfi Hkd
                    (Hnone kd (or_introl eq_refl)) Hsegs Hsp) as [Hev Hsegs1].
        rewrite Hev in Hstep. inversion Hstep; subst d2. clear Hstep.
        destruct (Horig kd Hkd) as (k & Eorig & Hin_es). destruct (chb_In lo hi es _ Hin_es) as (l & hh & Hchb).
        assert (Hswf : swf fuel d keep l hh kd).
        { apply (Hkids l hh (k, n_page kd) kd Hchb). cbn [snd]. now apply find_kid_NoDup. }
        destruct (spill_node_spec fuel d keep f _ _ _ _ _ _ _ _ _ _ Hfi Hswf Hsp) as (a1 & dd1 & g1 & F1 & _).
        pose proof (IHf _ _ _ _ _ _ _ _ _ _ h' Hfi Hswf (Hksh kd Hkd) Hsp) as Hk.
        inversion Hnd as [|? ? Hq_notin Hnd']; subst.
        apply (IH ((n_page kd, (fk, p) :: sibs) :: outs) (a1 ++ a0) (dd0 ++ dd1) s2 d1 s1
                  (frame_trans _ _ _ _ _ _ _ _ F0 F1) Hnd') in H.
        + destruct H as (outs' & a2 & dd2 & E & F2 & Hsh2 & Hcov). exists outs', a2, dd2.
          split; [exact E|]. split; [exact F2|]. split; [exact Hsh2|].
          intros q Hq. apply Hcov. rewrite find_out_cons. destruct (N.eqb_spec (n_page kd) q) as [Eq|Nq].
          * left. discriminate.
          * destruct Hq as [Hq|[Hq|Hq]]; [left; exact Hq | contradiction | right; exact Hq].
        + intros kd' Hk'. apply Hsub. now right.
        + intros kd' Hk'. rewrite find_out_cons. destruct (N.eqb_spec (n_page kd) (n_page kd')) as [E|E].
          * exfalso. apply Hq_notin. rewrite E. now apply in_map.
          * apply Hnone. now right.
        + exact Hsegs1.
        + constructor.
          * cbn [snd]. eapply laterU_left; [exact F0 | exact Hk].
          * eapply Forall_impl; [|exact Hsh]. intros x Hx. eapply laterU_right; [exact F1 | exact Hx].
    Qed.
  End FoldShape.

  Theorem spill_node_shape : forall f, DS f.
  Proof.
    induction f as [|f IHf]; intros live lo hi n s orig fk p sibs s' h Hfi Hswf Hsh H; [discriminate|].
    rewrite spill_node_unfold in H.
    inversion Hswf as [lo0 hi0 pg npg o sq l Hkeys | lo0 hi0 pg npg o sq es kids Hes Hnd_es Hnd_kids Horig Hkids Hstab];
      subst lo0 hi0 n.
    - cbn [n_kids n_data kid_keys fold_res bind isort_by map] in H.
      destruct h as [|h']; [destruct Hsh|]. cbn [SSh] in Hsh. subst h'.
      intros w' P Hag Hk. eapply spill_tail_shape; [exact Hfi | exact H | exact Hag | reflexivity].
    - cbn [n_kids n_data] in H.
      destruct (kid_keys kids) as [ks| |] eqn:Hkk; try discriminate. cbn [bind] in H.
      set (todo := map snd (isort_by fst ks)) in *.
      assert (Hperm : Permutation todo kids).
      { unfold todo. rewrite <- (kid_keys_snd _ _ Hkk). apply Permutation_map, isort_by_perm. }
      destruct (fold_res (spill_kid_step f) todo (Branches es, s)) as [[d1 s1]| |] eqn:Hfold; try discriminate.
      cbn [bind] in H.
      destruct h as [|h']; [destruct Hsh|]. cbn [SSh] in Hsh. destruct Hsh as [Hh Fe]. rewrite Forall_forall in Fe.
      pose proof Hes as (Hes_ne & Hes_s & Hes_r).
      assert (Hsegs0 : forall l h e, In (l, h, e) (chb lo hi es) -> keys_ok l h (map fst (seg_of [] e))).
      { intros l h e Hi. cbn [seg_of find_out find option_map map]. split; [discriminate|]. split; [reflexivity|].
        intros k [<-|[]]. apply (chb_self es lo hi Hes_s Hes_r _ _ _ Hi). }
      assert (E0 : es = flat_map (seg_of []) es) by (symmetry; apply flat_map_single).
      rewrite E0 in Hfold at 1.
      assert (Hksh : forall kd, In kd kids -> SSh h' d kd).
      { intros kd Hkd. destruct (Horig kd Hkd) as (k & _ & Hin). specialize (Fe _ Hin). cbn [snd] in Fe.
        rewrite (find_kid_NoDup kids kd Hnd_kids Hkd) in Fe. exact Fe. }
      destruct (kids_fold_shape f h' lo hi es kids live s IHf Hes Hnd_es Hnd_kids Horig Hkids Hksh
                  todo [] [] [] s d1 s1 (frame_refl live s Hfi))
        as (outs & a1 & dd1 & Ed1 & F & Hosh & Hcov); try assumption.
      { apply (Permutation_NoDup (l := map n_page kids)); [apply Permutation_map; symmetry; exact Hperm|exact Hnd_kids]. }
      { intros kd Hk. apply (Permutation_in _ Hperm Hk). }
      { reflexivity. }
      { constructor. }
      subst d1. pose proof (fr_fresh _ _ _ _ _ F) as Hfi1.
      destruct (spill_tail_spec _ _ _ _ _ _ _ _ _ Hfi1 H) as (d0 & rest & a2 & stale & _ & _ & _ & _ & _ & F2 & _).
      intros w' P Hag Hk. eapply spill_tail_shape; [exact Hfi1 | exact H | |].
      { intros q [A B]. apply Hag. split; [eapply Src_frame; eauto | exact B]. }
      cbn [data_sh]. exists h'. split; [reflexivity|]. split; [exact Hh|]. apply Forall_forall. intros e' He'.
      apply in_flat_map in He'. destruct He' as (e & He & He'). unfold seg_of in He'.
      destruct (find_out outs (snd e)) as [out|] eqn:Efo.
      + apply find_out_In in Efo. unfold outs_sh in Hosh. rewrite Forall_forall in Hosh. specialize (Hosh _ Efo). cbn [snd] in Hosh.
        pose proof (laterU_right _ _ _ _ _ _ _ _ _ F2 Hosh w' P Hag Hk) as Hso. unfold shape_out in Hso.
        rewrite Forall_forall in Hso. now apply Hso.
      + destruct He' as [<-|[]]. specialize (Fe _ He). destruct (find_kid (snd e) kids) as [kd|] eqn:Efk.
        * exfalso. destruct (EngineRebalanceFacts.find_kid_In _ _ _ Efk) as [Hkd Epg].
          apply (Hcov (snd e)); [|exact Efo]. right. rewrite <- Epg. apply in_map.
          apply (Permutation_in _ (Permutation_sym Hperm) Hkd).
        * eapply PSh_stable; [apply (keep_dget w' P d keep Hk) | apply Hstab; assumption | exact Fe].
  Qed.
End NodeShape.

(* ====================================================================== *)
(** * 5. [spill_root]: every new root level adds one *)

Section RootShape.
  Variables (d : disk) (keep : list N).

  Lemma root_loop_shape : forall f L0 s0 a0 d0 s fk p sibs h p' s',
    frame L0 s0 s a0 d0 -> h <> O ->
    laterU d keep s0 s (fun d' => shape_out h d' ((fk, p) :: sibs)) ->
    spill_root f (Node 0 0 (Some fk) 0 (Branches ((fk, p) :: sibs)) []) s = Ok (p', s') ->
    exists lv a' dd', frame L0 s0 s' a' dd' /\ laterU d keep s0 s' (fun d' => PSh (lv + h) d' p').
  Proof.
    induction f as [|f IH]; intros L0 s0 a0 d0 s fk p sibs h p' s' F0 Hh Hout H; [discriminate|].
    rewrite spill_root_unfold in H. unfold spill_root_first in H. cbn [n_data] in H.
    change fuel0 with (S 63) in H. rewrite spill_node_nokids in H by reflexivity. cbn [n_data] in H.
    apply bind_ok_inv in H. destruct H as ([[[o1 [fk1 p1]] sibs1] s1] & Ht & H).
    pose proof (fr_fresh _ _ _ _ _ F0) as Hfi.
    destruct (spill_tail_spec _ _ _ _ _ _ _ _ _ Hfi Ht) as (dd0 & rest & a1 & stale & _ & _ & _ & _ & _ & F1 & _).
    pose proof (frame_trans _ _ _ _ _ _ _ _ F0 F1) as F01.
    assert (Hout1 : laterU d keep s0 s1 (fun d' => shape_out (S h) d' ((fk1, p1) :: sibs1))).
    { intros w' P Hag Hk. eapply spill_tail_shape; [exact Hfi | exact Ht | |].
      - intros q [A B]. apply Hag. split; [exact (Src_frame _ _ _ _ _ _ F0 A) | exact B].
      - cbn [data_sh]. exists h. split; [reflexivity|]. split; [exact Hh|].
        exact (laterU_right _ _ _ _ _ _ _ _ _ F1 Hout w' P Hag Hk). }
    destruct sibs1 as [|sb1 sibs1'].
    - inversion H; subst p' s'. exists 1. eexists _, _.
      split; [exact F01|]. eapply laterU_impl; [|exact Hout1]. intros d' Hs. inversion Hs; subst. assumption.
    - destruct (IH L0 s0 _ _ s1 fk1 p1 (sb1 :: sibs1') (S h) p' s' F01 ltac:(lia) Hout1 H) as (lv & a' & dd' & F' & HL).
      exists (S lv), a', dd'. split; [exact F'|]. replace (S lv + h) with (lv + S h) by lia. exact HL.
  Qed.

  Theorem spill_root_shape : forall fuel f live n s p s' h, fresh_inv live s ->
    (n_data n = Leaves [] \/ swf fuel d keep None None n) -> SSh h d n ->
    spill_root f n s = Ok (p, s') ->
    exists lv, laterU d keep s s' (fun d' => PSh (lv + h) d' p).
  Proof.
    intros fuel f live n s p s' h Hfi Hn Hsh H. destruct f as [|f]; [discriminate|]. rewrite spill_root_unfold in H.
    apply bind_ok_inv in H. destruct H as ([[[o1 [fk1 p1]] sibs1] s1] & H1 & H). unfold spill_root_first in H1.
    destruct Hn as [E|Hswf].
    - rewrite E in H1. destruct (write_node s (set_kids n [])) as [n1 s2] eqn:Hw. inversion H1; subst o1 fk1 p1 sibs1 s1.
      inversion H; subst p s'. exists 0.
      destruct (write_node_frame _ _ _ _ _ Hfi Hw) as (F & _ & _ & Hk1 & _ & Hget).
      assert (Eh : h = 1). { destruct h as [|h']; [destruct Hsh|]. destruct n as [pg npg o sq dd ks]. cbn [n_data] in E. subst dd. cbn [SSh] in Hsh. lia. }
      subst h. intros w' P Hag Hk. cbn [plus].
      assert (Hd : dget (apply_wr w' P d) (n_page n1) = Some (mk_apage P (node_size (set_kids n []), n_data (set_kids n [])))).
      { apply dget_apply_wr_some. rewrite Hag; [exact Hget|]. eapply frame_alloc_used; [exact F|]. apply In_nrun. lia. }
      eapply data_sh_page; [exact Hd|]. cbn [mk_apage ap_body snd]. destruct n as [pg npg o sq dd ks]. cbn [n_data] in E. subst dd. reflexivity.
    - assert (H1' : spill_node fuel0 n s = Ok (o1, (fk1, p1), sibs1, s1)).
      { pose proof (swf_nonempty _ _ _ _ _ _ Hswf) as Hpos. destruct (n_data n) as [[|e l]|es]; [cbn in Hpos; lia | exact H1 | exact H1]. }
      pose proof (spill_node_shape fuel d keep fuel0 live None None n s o1 fk1 p1 sibs1 s1 h Hfi Hswf Hsh H1') as Hout.
      destruct (spill_node_spec fuel d keep fuel0 _ _ _ _ _ _ _ _ _ _ Hfi Hswf H1') as (a1 & dd1 & g1 & F1 & _).
      destruct sibs1 as [|sb1 sibs1'].
      + inversion H; subst p s'. exists 0. eapply laterU_impl; [|exact Hout]. intros d' Hs. inversion Hs; subst. assumption.
      + assert (Hh : h <> 0) by (destruct h; [destruct Hsh | lia]).
        destruct (root_loop_shape f live s a1 dd1 s1 fk1 p1 (sb1 :: sibs1') h p s' F1 Hh Hout H) as (lv & _ & _ & _ & HL).
        exists lv. exact HL.
  Qed.
End RootShape.

(* ====================================================================== *)
(** * 6. Shape + the entries of the view = uniform depth; kept committed buckets *)

Lemma Forall2_concat_Forall : forall {A B} (R : A -> list B -> Prop) (Q : B -> Prop) es ls,
  Forall2 R es ls -> (forall e l, In e es -> R e l -> Forall Q l) -> Forall Q (concat ls).
Proof.
  intros A B R Q es ls H. induction H as [|e l es ls Hr _ IH]; intros HQ; cbn [concat]; [constructor|].
  apply Forall_app. split; [apply (HQ e l); [now left | exact Hr] | apply IH; intros e0 l0 He0; apply HQ; now right].
Qed.

Lemma PDp_view : forall G h d q h' l, PDp G h d q -> PageView d h' q l -> Forall (ent_ok G) l.
Proof.
  intros G. induction h as [|h IH]; intros d q h' l H HV; [destruct H|]. rewrite PDp_S in H. destruct H as (a & Hg & Hb).
  inversion HV as [? ? a' l0 Hg' Hb' | ? ? a' es ls Hg' Hb' HF]; subst; rewrite Hg in Hg'; inversion Hg'; subst a'; rewrite Hb' in Hb.
  - exact (proj2 Hb).
  - destruct Hb as [_ Fe]. rewrite Forall_forall in Fe. eapply Forall2_concat_Forall; [exact HF|].
    cbn beta. intros e l0 He Hl0. eapply IH; [apply Fe, He | exact Hl0].
Qed.

Lemma NDp_view : forall G h d n h' l, NDp G h d n -> NodeView d h' n l -> Forall (ent_ok G) l.
Proof.
  intros G. induction h as [|h IH]; intros d n h' l H HV; [destruct H|]. destruct n as [p np o sq [l0|es] ks].
  - apply NodeView_leaf_inv in HV. destruct HV as [-> _]. rewrite NDp_leaf in H. exact (proj2 H).
  - apply NodeView_branch_inv in HV. destruct HV as (h0 & ls & -> & -> & HF). rewrite NDp_branch in H.
    destruct H as (_ & Fe & Fk). rewrite Forall_forall in Fe, Fk. eapply Forall2_concat_Forall; [exact HF|].
    cbn beta. intros e l0 He Hl0. unfold ChildView in Hl0. destruct (find_kid (snd e) ks) as [kd|] eqn:Ef.
    + eapply IH; [|exact Hl0]. apply Fk. eapply EngineRebalanceFacts.find_kid_In; eauto.
    + eapply PDp_view; [apply Fe, He | exact Hl0].
Qed.

Lemma PSh_view_PDp : forall G h d q h' l, PSh h d q -> PageView d h' q l -> Forall (ent_ok G) l -> PDp G h d q.
Proof.
  intros G. unfold PSh. induction h as [|h IH]; intros d q h' l H HV HF; [destruct H|]. rewrite PDp_S in *.
  destruct H as (a & Hg & Hb). exists a. split; [exact Hg|].
  inversion HV as [? ? a' l0 Hg' Hb' | ? ? a' es ls Hg' Hb' HF2]; subst; rewrite Hg in Hg'; inversion Hg'; subst a'; rewrite Hb' in *.
  - split; [exact (proj1 Hb) | exact HF].
  - destruct Hb as [E Fe]. split; [exact E|]. apply Forall_concat in HF. rewrite Forall_forall in Fe. apply Forall_forall.
    intros e He. destruct (Forall2_In_left _ _ _ _ HF2 He) as (l0 & Hl0 & Hv). cbn beta in Hv.
    rewrite Forall_forall in HF. eapply IH; [apply Fe, He | exact Hv | apply HF, Hl0].
Qed.

Lemma PSh_PageView : forall h d q, PSh h d q -> exists l, PageView d h q l.
Proof.
  unfold PSh. induction h as [|h IH]; intros d q H; [destruct H|]. rewrite PDp_S in H. destruct H as (a & Hg & Hb).
  destruct (ap_body a) as [l|es] eqn:Eb.
  - exists l. eapply PV_leaf; eauto.
  - destruct Hb as [_ Fe].
    assert (Hls : exists ls, Forall2 (fun e l => PageView d h (snd e) l) es ls).
    { clear Eb. induction Fe as [|e es He _ IHe]; [exists []; constructor|].
      destruct IHe as [ls Hls]. destruct (IH _ _ He) as [l0 Hl0]. exists (l0 :: ls). now constructor. }
    destruct Hls as [ls Hls]. exists (concat ls). eapply PV_branch; eauto.
Qed.

Lemma PSh_transfer : forall h d d' q, PSh h d q -> (forall x, in_subtree d q x -> dget d' x = dget d x) -> PSh h d' q.
Proof.
  unfold PSh. induction h as [|h IH]; intros d d' q H Hk; [exact H|]. rewrite PDp_S in *. destruct H as (a & Hg & Hb).
  exists a. split; [rewrite (Hk q (ist_self d q)); exact Hg|]. destruct (ap_body a) as [l|es] eqn:Eb; [exact Hb|].
  destruct Hb as [E Fe]. split; [exact E|]. rewrite Forall_forall in *. intros e He. apply (IH d d'); [apply Fe, He|].
  intros x Hx. apply Hk. eapply ist_kid; eauto.
Qed.

Lemma Forall_dbk_fuel : forall d (l : list leafent),
  Forall (ent_ok (fun r => exists n, dbk n d r)) l -> exists n, Forall (ent_ok (dbk n d)) l.
Proof.
  intros d l H. induction H as [|e l He _ [n IH]]; [exists 0; constructor|]. destruct e as [k v|k r nx].
  - exists n. constructor; [exact I | exact IH].
  - destruct He as [m Hm]. exists (Nat.max m n). constructor; [cbn [ent_ok]; eapply dbk_mono; [exact Hm | lia]|].
    eapply Forall_impl; [|exact IH]. intros e0 He0. eapply ent_ok_mono; [|exact He0]. intros r0 Hr0. eapply dbk_mono; [exact Hr0 | lia].
Qed.

(* a committed bucket of uniform depth all of whose pages are kept has uniform depth on every disk that keeps them *)
Lemma dbk_kept : forall n m d d' keep r, (forall x, In x keep -> dget d' x = dget d x) ->
  dbk n d r -> ckept m d keep r -> dbk n d' r.
Proof.
  induction n as [|n IH]; intros m d d' keep r Hk Hd Hc; [destruct Hd|]. destruct m as [|m]; [destruct Hc|].
  cbn [dbk] in Hd. destruct Hd as [h Hh]. cbn [ckept] in Hc. destruct Hc as (Hsub & l & HV & HF).
  assert (Hk' : forall x, in_subtree d r x -> dget d' x = dget d x) by (intros x Hx; apply Hk, Hsub, Hx).
  cbn [dbk]. exists h. eapply PSh_view_PDp; [eapply PSh_transfer; [eapply PDp_PSh; exact Hh | exact Hk'] |
                                              eapply PageView_transfer; [exact HV | exact Hk'] |].
  pose proof (PDp_view _ _ _ _ _ _ Hh HV) as He. rewrite Forall_forall in *. intros e Hin.
  specialize (He e Hin). specialize (HF e Hin). destruct e as [k v|k r' nx]; [exact I|]. cbn [ent_ok] in *.
  eapply IH; eauto.
Qed.

(* ====================================================================== *)
(** * 7. Buckets: shape through the parent updates of [spill_bucket]; clean buckets have no root node *)

Definition BSh (d : disk) (b : bucket) : Prop :=
  exists h, match b_rootn b with Some n => NDp TT h d n | None => PDp TT h d (b_root_page b) end.

Lemma BDp_BSh : forall d b, BDp d b -> BSh d b.
Proof.
  intros d b [h H]. exists h. destruct (b_rootn b); [eapply NDp_mono | eapply PDp_mono]; try exact H; intros; exact I.
Qed.

Lemma lop_ok_TT : forall o, lop_ok TT o.
Proof. intros [[k v|k r nx]|k]; exact I. Qed.

Lemma b_modify_BSh : forall d b o s b' s', BSh d b -> b_modify d b o s = Ok (b', s') -> BSh d b'.
Proof.
  intros d b o s b' s' [h HB] H. unfold b_modify in H.
  apply bind_ok_inv in H. destruct H as ([root s0] & Er & H).
  apply bind_ok_inv in H. destruct H as ([n' s1] & Em & H). inversion H; subst b' s'.
  exists h. cbn [b_rootn]. eapply modify_NDp; [|apply lop_ok_TT|exact Em].
  unfold ensure_root in Er. destruct (b_rootn b) as [n0|].
  - inversion Er; subst. exact HB.
  - destruct (dget d (b_root_page b)) as [a|] eqn:Eg; [|discriminate]. cbn [next_seq] in Er. inversion Er; subst.
    now apply node_of_page_NDp.
Qed.

Lemma meta_fold_BSh : forall d (ms : list meta) bb s0 b1 s2, BSh d bb ->
  fold_res (meta_step d) ms (bb, s0) = Ok (b1, s2) -> BSh d b1.
Proof.
  intros d. induction ms as [|[[nm r] nx] ms IH]; intros bb s0 b1 s2 HB H; cbn [fold_res] in H.
  - inversion H; subst. exact HB.
  - apply bind_ok_inv in H. destruct H as ([b' s'] & Est & H). eapply IH; [|exact H].
    unfold meta_step in Est. apply bind_ok_inv in Est. destruct Est as (cur & _ & Est). destruct cur as [e|].
    + destruct (is_kv e); [discriminate|]. eapply b_modify_BSh; eauto.
    + apply bind_ok_inv in Est. destruct Est as ([b2 s3] & Hm & Est). inversion Est; subst b' s'.
      destruct (b_modify_BSh _ _ _ _ _ _ HB Hm) as [h Hh]. exists h. exact Hh.
Qed.

(* a bucket that is not dirty has no root node (it was opened and never modified) *)
Fixpoint CNF (f : nat) (b : bucket) : Prop :=
  match f with O => False | S f' =>
    (b_dirty b = false -> b_rootn b = None) /\ Forall (fun x => CNF f' (snd x)) (b_subs b) end.

Lemma XDF_CNF : forall d R k b, XDF d R k b -> CNF k b.
Proof.
  intros d R. induction k as [|k IH]; intros b H; [destruct H|]. rewrite XDF_S in H. destruct H as (_ & A & _ & B).
  cbn [CNF]. split; [exact A|]. eapply Forall_impl; [|exact B]. intros x. apply IH.
Qed.

Lemma reb_fold_Forall : forall f d (Q Q' : bucket -> Prop) subs,
  (forall x s b' s', In x subs -> Q (snd x) -> rebalance f d (snd x) s = Ok (b', s') -> Q' b') ->
  Forall (fun x => Q (snd x)) subs ->
  forall (acc : list (bytes * bucket)) s0 subs' s1, Forall (fun x => Q' (snd x)) acc ->
    fold_left (fun a x => bind a (fun '(l, s0) => bind (rebalance f d (snd x) s0) (fun '(b', s') => Ok (l ++ [(fst x, b')], s'))))
              subs (Ok (acc, s0)) = Ok (subs', s1) ->
    Forall (fun x => Q' (snd x)) subs'.
Proof.
  intros f d Q Q'. induction subs as [|x subs IH]; intros Hstep HQ acc s0 subs' s1 Hacc H.
  - cbn [fold_left] in H. inversion H; subst. exact Hacc.
  - inversion HQ as [|? ? Hx HQ']; subst. cbn [fold_left bind] in H.
    destruct (rebalance f d (snd x) s0) as [[bx sx]| |] eqn:Ex; cbn [bind] in H.
    + eapply (IH (fun y s b' s' Hy => Hstep y s b' s' (or_intror Hy)) HQ' _ sx subs' s1); [|exact H].
      apply Forall_app. split; [exact Hacc|]. repeat constructor. cbn [snd]. eapply Hstep; [now left | exact Hx | exact Ex].
    + exfalso. revert H. apply fold_left_not_ok; [|intros; discriminate].
      intros x0 r Hr a0. destruct r as [a1| |]; cbn [bind]; [exfalso; eapply Hr; eauto | discriminate | discriminate].
    + exfalso. revert H. apply fold_left_not_ok; [|intros; discriminate].
      intros x0 r Hr a0. destruct r as [a1| |]; cbn [bind]; [exfalso; eapply Hr; eauto | discriminate | discriminate].
Qed.

Lemma rebalance_CNF : forall f k d b s b' s', CNF k b -> rebalance f d b s = Ok (b', s') -> CNF k b'.
Proof.
  induction f as [|f IH]; intros k d b s b' s' HC H; [discriminate|]. cbn [rebalance] in H.
  destruct (negb (is_dirty fuel0 b)); [inversion H; subst; exact HC|].
  apply bind_ok_inv in H. destruct H as ([subs' s1] & Ef & H).
  destruct k as [|k]; [destruct HC|]. cbn [CNF] in HC. destruct HC as [_ HS].
  destruct (merge_nodes_fields _ _ _ _ _ H) as (_ & Es & Ed). cbn [b_subs b_dirty] in Es, Ed.
  cbn [CNF]. split; [rewrite Ed; discriminate|]. rewrite Es.
  eapply (reb_fold_Forall f d (CNF k) (CNF k) (b_subs b)); [| exact HS | constructor | exact Ef].
  intros x s0 bx sx _ Hx Ex. eapply IH; eauto.
Qed.

(* ====================================================================== *)
(** * 8. [spill_bucket] writes buckets of uniform depth *)

Section BucketDepth.
  Variables (d : disk) (keep : list N).
  Hypothesis Hz : dget d 0%N = None.

  Definition Gk (d' : disk) (r : N) : Prop := exists n, dbk n d' r.

  (* in every later state of the same transaction, committing would store a bucket of uniform depth at r *)
  Definition WrittenD (live A : list N) (s : txs) (r : N) : Prop :=
    forall s'' a2 d2 P, frame (A ++ live) s s'' a2 d2 -> Gk (apply_wr (wr s'') P d) r.

  Lemma WrittenD_later : forall live A s s1 a dd r,
    frame (A ++ live) s s1 a dd -> WrittenD live A s r -> WrittenD live (a ++ A) s1 r.
  Proof.
    intros live A s s1 a dd r Hf HW s'' a2 d2 P Hf2. rewrite <- app_assoc in Hf2.
    apply (HW s'' (a2 ++ a) (dd ++ d2) P). eapply frame_trans; eauto.
  Qed.

  Lemma WrittenD_kept : forall n m live A s r,
    fresh_inv (A ++ live) s -> (forall x, In x keep -> In x live) -> unwritten keep s ->
    dbk n d r -> ckept m d keep r -> WrittenD live A s r.
  Proof.
    intros n m live A s r Hfi Hk Hu Hd Hc s'' a2 d2 P Hf. exists n. eapply dbk_kept; [|exact Hd|exact Hc].
    apply unwritten_dget. apply (frame_unwritten _ _ _ _ _ keep Hfi Hf); [|exact Hu].
    intros x Hx. apply in_or_app. right. apply Hk, Hx.
  Qed.

  Definition RecD (rec : bucket -> txs -> list bytes -> res (N * N * txs * list bytes)) : Prop :=
    forall live b s ord r nx s' ord' m k, fresh_inv live s -> (forall x, In x keep -> In x live) -> unwritten keep s ->
      SReady d keep b -> OvlAbs d b m -> DD d b -> CNF k b -> rec b s ord = Ok (r, nx, s', ord') ->
      exists alloc dead, frame live s s' alloc dead /\ WrittenD live alloc s' r.

  Definition SubInvD (live : list N) (s : txs) (subs : list (bytes * bucket)) (acc : sub_acc) : Prop :=
    let '(l, s0, _, remaining) := acc in
    (forall x, In x remaining -> In x subs) /\
    exists A D, frame live s s0 A D /\ Forall (fun m : meta => WrittenD live A s0 (snd (fst m))) l.

  Lemma sub_step_invD : forall live s subs rec k, RecD rec ->
    fresh_inv live s -> (forall x, In x keep -> In x live) -> unwritten keep s ->
    (forall nm sb, In (nm, sb) subs -> SReady d keep sb /\ (exists ms, OvlAbs d sb ms) /\ DD d sb /\ CNF k sb) ->
    forall x acc acc', SubInvD live s subs acc -> sub_step rec acc x = Ok acc' -> SubInvD live s subs acc'.
  Proof.
    intros live s subs rec k HR Hfi Hk Hu Hsubs x [[[l s0] o] remaining] acc' HI H.
    unfold sub_step in H. destruct o as [|nm o']; [discriminate|].
    destruct (take_sub nm remaining) as [[sb rem']|] eqn:Et; [|discriminate].
    apply bind_ok_inv in H. destruct H as ([[[r nx] s'] o''] & Hrec & H). inversion H; subst acc'. clear H.
    destruct (take_sub_inv _ _ _ _ Et) as (a & b & Erem & ->).
    destruct HI as (I2 & A & D & Hfr & Hall).
    assert (Hin_rem : In (nm, sb) remaining) by (rewrite Erem; apply in_or_app; right; now left).
    destruct (Hsubs nm sb (I2 _ Hin_rem)) as (HS & [ms Hms] & HDD & HCN).
    assert (Hk' : forall x, In x keep -> In x (A ++ live)) by (intros y Hy; apply in_or_app; right; apply Hk, Hy).
    destruct (HR (A ++ live) sb s0 o' r nx s' o'' ms k (fr_fresh _ _ _ _ _ Hfr) Hk'
                   (frame_unwritten _ _ _ _ _ keep Hfi Hfr Hk Hu) HS Hms HDD HCN Hrec) as (a1 & d1 & Hf1 & HW).
    unfold SubInvD. split.
    { intros y Hy. apply I2. rewrite Erem. apply in_app_or in Hy. apply in_or_app. destruct Hy; [left|right; right]; assumption. }
    exists (a1 ++ A), (D ++ d1). split; [eapply frame_trans; eauto|].
    apply Forall_app. split.
    - eapply Forall_impl; [|exact Hall]. intros m0 X. eapply WrittenD_later; eauto.
    - repeat constructor. cbn [fst snd]. intros s'' a2 d2 P Hf2. rewrite <- app_assoc in Hf2. apply (HW s'' a2 d2 P Hf2).
  Qed.

  Lemma sub_fold_invD : forall live s subs rec k, RecD rec ->
    fresh_inv live s -> (forall x, In x keep -> In x live) -> unwritten keep s ->
    (forall nm sb, In (nm, sb) subs -> SReady d keep sb /\ (exists ms, OvlAbs d sb ms) /\ DD d sb /\ CNF k sb) ->
    forall cnt acc acc', SubInvD live s subs acc -> fold_res (sub_step rec) cnt acc = Ok acc' -> SubInvD live s subs acc'.
  Proof.
    intros live s subs rec k HR Hfi Hk Hu Hsubs. induction cnt as [|x cnt IH]; intros acc acc' HI H.
    - cbn [fold_res] in H. inversion H; subst. exact HI.
    - cbn [fold_res] in H. apply bind_ok_inv in H. destruct H as (acc1 & H1 & H2).
      apply (IH acc1 acc'); [|exact H2]. eapply sub_step_invD; eauto.
  Qed.

  Lemma finish_Gk : forall d'' hh p lp, PSh hh d'' p -> EntsOf d'' p lp -> Forall (ent_ok (Gk d'')) lp -> Gk d'' p.
  Proof.
    intros d'' hh p lp Hs [K HK] HF. destruct (PSh_PageView _ _ _ Hs) as [l2 HV].
    destruct (PageView_EntsOf _ _ _ _ HV) as [K2 HK2].
    assert (E : l2 = lp). { rewrite <- (HK2 (Nat.max K K2)) by lia. apply HK. lia. }
    subst l2. destruct (Forall_dbk_fuel _ _ HF) as [n Hn]. exists (S n). cbn [dbk]. exists hh.
    eapply PSh_view_PDp; eauto.
  Qed.

  Lemma patched_good : forall d'' subs (ms : list meta) l,
    (forall m, In m ms -> Gk d'' (snd (fst m))) ->
    (forall x, In x subs -> In (fst x) (map m_name ms)) ->
    (forall k r nx, In (LBk k r nx) l -> sub_find k subs = None -> Gk d'' r) ->
    Forall (ent_ok (Gk d'')) (map (patch ms) l).
  Proof.
    intros d'' subs ms l Hms Hcov Hdisk. apply Forall_forall. intros e' He'. apply in_map_iff in He'.
    destruct He' as (e & <- & He). destruct e as [k v|k r nx]; cbn [patch]; [exact I|].
    destruct (find (fun m => beq (m_name m) k) ms) as [[[k1 r1] nx1]|] eqn:Ef.
    - apply find_some in Ef. destruct Ef as [E1 _]. cbn [ent_ok]. exact (Hms _ E1).
    - cbn [ent_ok]. apply (Hdisk k r nx He). destruct (sub_find k subs) as [sb|] eqn:Hsf; [|reflexivity].
      exfalso. pose proof (Hcov _ (sub_find_In _ _ _ Hsf)) as Hin. cbn [fst] in Hin.
      destruct (find_name ms k Hin) as (m1 & F1 & _). congruence.
  Qed.

  Lemma ckept_dget : forall m r, ckept m d keep r -> exists a, dget d r = Some a.
  Proof.
    intros [|m] r H; [destruct H|]. cbn [ckept] in H. destruct H as (_ & l & HV & _). inversion HV; subst; eauto.
  Qed.

  (* an entry that a leaf of uniform depth may hold ([Gd]) and that names a kept committed bucket names a
     committed bucket of uniform depth *)
  Lemma Gd_kept : forall m r, Gd d r -> ckept m d keep r -> exists n, dbk n d r.
  Proof.
    intros m r [-> | H] Hc; [|exact H]. destruct (ckept_dget _ _ Hc) as [a Ha]. congruence.
  Qed.

  Lemma PDp_Gd_kept : forall h m r, PDp (Gd d) h d r -> ckept m d keep r -> exists n, dbk n d r.
  Proof.
    intros h [|m] r HP Hc; [destruct Hc|]. cbn [ckept] in Hc. destruct Hc as (_ & l & HV & HF).
    pose proof (PDp_view _ _ _ _ _ _ HP HV) as He.
    assert (HF2 : Forall (ent_ok (fun r0 => exists n, dbk n d r0)) l).
    { rewrite Forall_forall in *. intros e Hin. specialize (He e Hin). specialize (HF e Hin).
      destruct e as [k v|k r' nx]; [exact I|]. cbn [ent_ok] in *. eapply Gd_kept; eauto. }
    destruct (Forall_dbk_fuel _ _ HF2) as [n Hn]. exists (S n). cbn [dbk]. exists h.
    eapply PSh_view_PDp; [eapply PDp_PSh; exact HP | exact HV | exact Hn].
  Qed.

  Lemma spill_tail_depth : forall live s A D s1 s2 h l subs (ms : list meta) rn p s3 hh,
    fresh_inv live s -> (forall x, In x keep -> In x live) -> unwritten keep s ->
    frame live s s1 A D -> same_but_seqc s1 s2 ->
    Inv h d false None None rn -> RRdy d keep rn -> NodeView d h rn (map (patch ms) l) -> SSh hh d rn ->
    Forall (fun m : meta => WrittenD live A s1 (snd (fst m))) ms ->
    (forall x, In x subs -> In (fst x) (map m_name ms)) ->
    (forall k r nx, In (LBk k r nx) l -> sub_find k subs = None -> exists n m, dbk n d r /\ ckept m d keep r) ->
    spill_root fuel0 rn s2 = Ok (p, s3) ->
    exists alloc dead, frame live s s3 alloc dead /\ WrittenD live alloc s3 p.
  Proof.
    intros live s A D s1 s2 h l subs ms rn p s3 hh Hfi Hk Hu Hfr Hs12 HI HR HV Hsh Hms Hcov Hdisk Hsp.
    pose proof (frame_seqc_r _ _ _ _ _ _ Hfr Hs12) as Hfr2.
    pose proof (fr_fresh _ _ _ _ _ Hfr2) as Hfi2.
    assert (Hk2 : forall x, In x keep -> In x (A ++ live)) by (intros y Hy; apply in_or_app; right; apply Hk, Hy).
    pose proof (frame_unwritten _ _ _ _ _ keep Hfi Hfr2 Hk Hu) as Hu2.
    pose proof (Inv_RRdy_root_ready _ _ _ _ HI HR) as Hrr.
    destruct (spill_root_view d keep (A ++ live) h rn _ fuel0 s2 p s3 (Inv_wf_node _ _ _ _ _ HI) HV Hrr Hfi2 Hsp)
      as (alloc & dead & good & lv & F1 & F2 & F3 & _ & _ & _ & F7).
    pose proof (root_ready_swf d keep h rn _ (Inv_wf_node _ _ _ _ _ HI) HV Hrr) as Hsw.
    destruct (spill_root_shape d keep h fuel0 (A ++ live) rn s2 p s3 hh Hfi2 Hsw Hsh Hsp) as [lv2 HL].
    exists (alloc ++ A), (D ++ dead). split; [eapply frame_trans; eauto|].
    intros s'' a2 d2 P Hf''. rewrite <- app_assoc in Hf''.
    destruct (frame_later_ok _ _ _ _ _ good keep s'' a2 d2 Hfi2 F1 F2 Hk2 Hu2 Hf'') as [G1 G2].
    apply (finish_Gk _ (lv2 + hh) p (map (patch ms) l)).
    - exact (laterU_later _ _ _ _ _ _ _ _ _ P HL Hf'' G2).
    - exists (lv + ndepth rn + h). intros F HF'. apply (F7 (wr s'') P G1 G2 F HF').
    - apply (patched_good _ subs); [|exact Hcov|].
      + intros m Hm. rewrite Forall_forall in Hms.
        apply (Hms m Hm s'' (a2 ++ alloc) (dead ++ d2) P). apply (frame_seqc_l _ _ _ _ _ _ Hs12). eapply frame_trans; eauto.
      + intros k r nx Hin Hsf. destruct (Hdisk k r nx Hin Hsf) as (n & m & Hd & Hc). exists n.
        eapply dbk_kept; [|exact Hd|exact Hc]. now apply unwritten_dget.
  Qed.

  Lemma is_dirty_false : forall b, is_dirty fuel0 b = false -> b_dirty b = false.
  Proof. intros b H. unfold fuel0 in H. rewrite is_dirty_S in H. apply orb_false_iff in H. tauto. Qed.

  Lemma RecD_step : forall f, RecD (spill_bucket f d) -> RecD (spill_bucket (S f) d).
  Proof.
    intros f HR live b s ord r nx s' ord' m k Hfi Hk Hu HS HO HDD HCN H.
    rewrite spill_bucket_unfold in H.
    destruct (DD_inv _ _ HDD) as [HB HDsubs].
    destruct k as [|k]; [destruct HCN|]. cbn [CNF] in HCN. destruct HCN as [HCroot HCsubs].
    destruct (is_dirty fuel0 b) eqn:Ed; cbn [negb] in H.
    2:{ inversion H; subst r nx s' ord'. inversion HS as [b0 _ (n & _ & Hc) _ | b0 h l Hd]; subst b0; [|congruence].
        exists [], []. split; [now apply frame_refl|].
        destruct HB as [hh HB]. rewrite (HCroot (is_dirty_false _ Ed)) in HB.
        destruct (PDp_Gd_kept _ _ _ HB Hc) as [n' Hn']. apply (WrittenD_kept n' n live [] s); auto. }
    inversion HS as [b0 Hd | b0 h l _ Hh HV HD Hnd Hsubs Hdisk]; subst b0; [congruence|].
    inversion HO as [b0 l0 ents Hbv HF]; subst b0 m.
    assert (El : l0 = l) by (apply (bucket_view_det d b); [exact Hbv | exists h; auto]). subst l0.
    assert (Hsubs' : forall nm sb, In (nm, sb) (b_subs b) -> SReady d keep sb /\ exists ms, OvlAbs d sb ms).
    { intros nm sb Hin. destruct (Hsubs nm sb Hin) as [(r0 & nx0 & Hl) HSb]. split; [exact HSb|].
      eapply sub_has_meaning; eauto. }
    assert (Hsubs'' : forall nm sb, In (nm, sb) (b_subs b) ->
              SReady d keep sb /\ (exists ms, OvlAbs d sb ms) /\ DD d sb /\ CNF k sb).
    { intros nm sb Hin. destruct (Hsubs' nm sb Hin) as [X1 X2]. split; [exact X1|]. split; [exact X2|].
      rewrite Forall_forall in HDsubs, HCsubs. split; [exact (HDsubs _ Hin) | exact (HCsubs _ Hin)]. }
    (* the entries of the view name 0 or committed buckets of uniform depth *)
    assert (Hview : Forall (ent_ok (Gd d)) l).
    { destruct HB as [hh HB]. unfold BucketView in HV. destruct (b_rootn b) as [n0|]; [eapply NDp_view | eapply PDp_view]; eauto. }
    assert (Hdisk' : forall k0 r0 nx0, In (LBk k0 r0 nx0) l -> sub_find k0 (b_subs b) = None ->
              exists n m, dbk n d r0 /\ ckept m d keep r0).
    { intros k0 r0 nx0 Hin Hsf. destruct (Hdisk k0 r0 nx0 Hin Hsf) as (n & _ & Hc).
      rewrite Forall_forall in Hview. pose proof (Hview _ Hin) as Hg. cbn [ent_ok] in Hg.
      destruct (Gd_kept _ _ Hg Hc) as [n' Hn']. eauto. }
    apply bind_ok_inv in H. destruct H as ([[[metas s1] ord1] rem] & Hf1 & H).
    assert (HI0 : SubInv d live s (b_subs b) ([], s, ord, b_subs b)).
    { cbn [SubInv]. split; [exact Hnd|]. split; [auto|]. split; [constructor|]. split; [intros ? []|].
      split; [intros x Hx; now right|]. exists [], []. split; [now apply frame_refl | constructor]. }
    destruct (sub_fold_inv d keep live s (b_subs b) _ (RecOK_all d keep f) Hfi Hk Hu Hsubs' (b_subs b) _ _ HI0 Hf1)
      as [(_ & _ & J3 & _ & J5 & A0 & D0 & Hfr0 & Hms) Hlen].
    cbn [snd] in Hlen. assert (rem = []) by (destruct rem; [reflexivity | cbn [length] in Hlen; lia]). subst rem.
    assert (Hcov : forall x, In x (b_subs b) -> In (fst x) (map m_name metas)).
    { intros x Hx. destruct (J5 x Hx) as [Hc|[]]. exact Hc. }
    assert (HI0D : SubInvD live s (b_subs b) ([], s, ord, b_subs b)).
    { cbn [SubInvD]. split; [auto|]. exists [], []. split; [now apply frame_refl | constructor]. }
    destruct (sub_fold_invD live s (b_subs b) _ k HR Hfi Hk Hu Hsubs'' (b_subs b) _ _ HI0D Hf1)
      as (_ & A & D & Hfr & HmsD).
    apply bind_ok_inv in H. destruct H as ([b1 s2] & Hf2 & H).
    assert (Hall : forall mt, In mt metas -> exists r0 nx0, In (LBk (m_name mt) r0 nx0) l).
    { intros mt Hmt. rewrite Forall_forall in Hms. destruct (Hms mt Hmt) as (sb & _ & X1 & _).
      destruct (Hsubs _ _ X1) as [Hex _]. exact Hex. }
    assert (Hcase : (b_rootn b = None /\ metas = []) \/
                    (SRoot d keep h b /\ (metas <> [] \/ exists n, b_rootn b = Some n))).
    { unfold SRoot, DRoot in *. destruct (b_rootn b) as [n|]; [right; split; [exact HD | right; eauto]|].
      destruct metas as [|mt metas]; [left; auto|]. right. split; [|left; discriminate].
      destruct HD as [HD1 HD2]. split; [|exact HD1]. apply HD2.
      inversion Hms as [|? ? (sb & _ & X1 & _) _]; subst. intros E. rewrite E in X1. destruct X1. }
    destruct Hcase as [[Ern ->] | [HSR Hsome]].
    - (* the promoted root that was never loaded, no opened sub-bucket: the committed page is returned *)
      cbn [fold_res] in Hf2. inversion Hf2; subst b1 s2. unfold spill_tail_b in H. rewrite Ern in H.
      inversion H; subst r nx s' ord'. clear H.
      exists A, D. split; [exact Hfr|].
      unfold DRoot in HD. unfold BucketView in HV. destruct HB as [hh HB]. rewrite Ern in HD, HV, HB. destruct HD as [HD1 _].
      intros s'' a2 d2 P Hf''.
      assert (Hu'' : unwritten keep s'').
      { apply (frame_unwritten _ _ _ _ _ keep (fr_fresh _ _ _ _ _ Hfr) Hf'').
        - intros x Hx. apply in_or_app. right. apply Hk, Hx.
        - apply (frame_unwritten _ _ _ _ _ keep Hfi Hfr Hk Hu). }
      assert (Hag : forall x, in_subtree d (b_root_page b) x -> dget (apply_wr (wr s'') P d) x = dget d x).
      { intros x Hx. apply unwritten_dget with (keep := keep); [exact Hu'' | apply HD1, Hx]. }
      apply (finish_Gk _ hh (b_root_page b) l).
      + eapply PSh_transfer; [eapply PDp_PSh; exact HB | exact Hag].
      + eapply PageView_EntsOf. eapply PageView_transfer; [exact HV | exact Hag].
      + rewrite <- (patch_nil l). apply (patched_good _ (b_subs b) []); [intros ? [] | exact Hcov |].
        intros k0 r0 nx0 Hin Hsf. destruct (Hdisk' k0 r0 nx0 Hin Hsf) as (n & m0 & Hd & Hc). exists n.
        eapply dbk_kept; [|exact Hd|exact Hc]. now apply unwritten_dget.
    - destruct (meta_fold_replace d keep h metas b l s1 b1 s2 HSR HV Hh J3 Hall Hf2)
        as (B1 & B2 & B3 & B4 & _ & B6).
      destruct (meta_fold_BSh d metas b s1 b1 s2 (BDp_BSh _ _ HB) Hf2) as [hh Hhh].
      assert (Hrn : exists rn, b_rootn b1 = Some rn).
      { destruct Hsome as [Hne | [n Hn]]; [apply B3, Hne|]. destruct metas as [|mt metas]; [|apply B3; discriminate].
        rewrite (B4 eq_refl). eauto. }
      destruct Hrn as [rn Ern]. unfold spill_tail_b in H. rewrite Ern in H. rewrite Ern in Hhh.
      apply bind_ok_inv in H. destruct H as ([p s3] & Hsp & H). inversion H; subst r nx s' ord'. clear H.
      unfold SRoot in B1. rewrite Ern in B1. destruct B1 as [HI HRd]. unfold BucketView in B2. rewrite Ern in B2.
      exact (spill_tail_depth live s A D s1 s2 h l (b_subs b) metas rn p s3 hh
               Hfi Hk Hu Hfr B6 HI HRd B2 (NDp_SSh _ _ _ _ Hhh) HmsD Hcov Hdisk' Hsp).
  Qed.

  Theorem spill_bucket_depth : forall f live b s ord r nx s' ord' m k,
    fresh_inv live s -> (forall x, In x keep -> In x live) -> unwritten keep s ->
    SReady d keep b -> OvlAbs d b m -> DD d b -> CNF k b -> spill_bucket f d b s ord = Ok (r, nx, s', ord') ->
    exists alloc dead, frame live s s' alloc dead /\ WrittenD live alloc s' r.
  Proof.
    intros f. assert (G : RecD (spill_bucket f d)).
    { induction f as [|f IH]; [|now apply RecD_step]. intros live b s ord r nx s' ord' m k _ _ _ _ _ _ _ H. discriminate. }
    exact G.
  Qed.
End BucketDepth.

(* ====================================================================== *)
(** * 9. [commit], [run_tx], histories *)

(* the committed state has uniform depth again *)
Theorem run_tx_depth : forall st ops ord st', db_ok st -> dget (d_disk st) 0%N = None -> db_depth st ->
  Forall (op_ok (d_disk st)) ops -> run_tx st ops ord = Ok st' -> db_depth st'.
Proof.
  intros st ops ord st' [Hdb [R HA]] Hz Hdd Hops Hrun.
  destruct (ops_refine st ops (db_strict_pages_wf st Hdb) Hops) as (root' & s' & Hf & _ & Ha & Hfr).
  rewrite run_tx_fold, Hf in Hrun. cbn [bind fst snd] in Hrun. rewrite commit_apply_wr in Hrun.
  unfold commit_with_apply_wr in Hrun.
  apply bind_ok_inv in Hrun. destruct Hrun as ([b1 s1] & Hr & Hrun).
  apply bind_ok_inv in Hrun. destruct Hrun as ([[[r nx] s2] ord'] & Hsp & Hrun).
  destruct (rebalanced_ready st R ops root' s' b1 s1 _ Hdb HA Hf Ha Hfr Hr) as (Hfi & Hwr & HS & HO).
  assert (Hk : forall x, In x R -> In x (live_of st R)) by (intros x Hx; now apply R_live).
  assert (Hu : unwritten R s1) by (intros x _; rewrite Hwr; reflexivity).
  pose proof (rebalance_DD _ _ _ _ _ _ (tx_ops_DD st ops root' s' Hdb Hdd Hz Hf) Hr) as HDD.
  pose proof (rebalance_CNF _ _ _ _ _ _ _ (XDF_CNF _ _ _ _ (tx_ops_XDF st R ops root' s' Hdb HA Hf)) Hr) as HCN.
  destruct (spill_bucket_depth (d_disk st) R Hz fuel0 (live_of st R) b1 s1 ord r nx s2 ord' _ 9 Hfi Hk Hu HS HO HDD HCN Hsp)
    as (alloc & dead & F1 & HW).
  set (s3 := free_pages s2 (d_fl st) (d_fln st)) in Hrun.
  destruct (tx_allocate s3 (40 + 8 * llen (all_pages s3))) as [[flp fln] s4] eqn:Hal.
  inversion Hrun; subst st'. clear Hrun. unfold db_depth. cbn [d_disk d_root].
  pose proof (fr_fresh _ _ _ _ _ F1) as Hfi2.
  pose proof (free_pages_frame (alloc ++ live_of st R) s2 (d_fl st) (d_fln st) Hfi2) as G1. fold s3 in G1.
  assert (Hpos : (0 < 40 + 8 * llen (all_pages s3))%N) by lia.
  destruct (tx_allocate_frame (alloc ++ live_of st R) s3 _ flp fln s4 (fr_fresh _ _ _ _ _ G1) Hpos Hal) as [G2 _].
  pose proof (frame_trans _ _ _ _ _ _ _ _ G1 G2) as G4.
  exact (HW s4 _ _ (psz s4) G4).
Qed.

(* the strengthened invariant of committed states *)
Definition db_okd (st : db) : Prop := db_okz st /\ db_depth st.

Theorem init_db_okd : forall P, (0 < P)%N -> db_okd (init_db P).
Proof. intros P HP. split; [now apply init_db_okz | apply init_db_depth]. Qed.

Theorem run_tx_okd : forall st ops ord st', db_okd st -> Forall (op_ok (d_disk st)) ops ->
  run_tx st ops ord = Ok st' -> readable st' -> db_okd st'.
Proof.
  intros st ops ord st' [Hok Hdd] Hops Hrun Hrd. split; [eapply run_tx_okz; eauto|].
  destruct Hok as [Hok' Hz]. eapply run_tx_depth; eauto. now apply db_ok'_db_ok.
Qed.

(* panic freedom of histories: every transaction of a history from a well-formed state of uniform depth (e.g.
   [init_db]) ends in [Ok] or one of the three [Err]s *)
Theorem run_txs_no_panic : forall txs st msg, db_okd st -> txs_ok' st txs -> run_txs st txs <> Panic msg.
Proof.
  induction txs as [|[ops ord] txs IH]; intros st msg Hok Htx; cbn [run_txs]; [discriminate|].
  destruct Htx as [Hops Hnext]. destruct Hok as [Hokz Hdd].
  pose proof (run_tx_no_panic st ops ord msg Hokz Hdd Hops) as Hnp.
  destruct (run_tx st ops ord) as [st1|m|e] eqn:E1; cbn [bind]; [|exact Hnp|discriminate].
  destruct (Hnext st1 eq_refl) as [Hrd Htx1].
  apply IH; [|exact Htx1]. eapply run_tx_okd; eauto. split; assumption.
Qed.

Corollary run_txs_okd : forall txs st st', db_okd st -> txs_ok' st txs -> run_txs st txs = Ok st' -> db_okd st'.
Proof.
  induction txs as [|[ops ord] txs IH]; intros st st' Hok Htx H; cbn [run_txs] in H.
  - inversion H; subst. exact Hok.
  - apply bind_ok_inv in H. destruct H as (st1 & H1 & H2). destruct Htx as [Hops Hnext].
    destruct (Hnext st1 H1) as [Hrd Htx1]. eapply IH; [|exact Htx1|exact H2]. eapply run_tx_okd; eauto.
Qed.

Corollary run_txs_no_panic_init : forall P txs msg, (0 < P)%N -> txs_ok' (init_db P) txs ->
  run_txs (init_db P) txs <> Panic msg.
Proof. intros P txs msg HP Htx. apply run_txs_no_panic; [now apply init_db_okd | exact Htx]. Qed.

(* ====================================================================== *)
(** * 10. Examples; and a well-formed state WITHOUT uniform depth on which a transaction panics *)

Example ex3_st'_depth : db_depth Ex3R.ex3_st'.
Proof. apply db_depthb_ok. vm_compute. reflexivity. Qed.

Example hist_st_depth : db_depth ExHistory.hist_st.
Proof. apply db_depthb_ok. vm_compute. reflexivity. Qed.

Example hist_st_okd : db_okd ExHistory.hist_st.
Proof. split; [exact hist_st_okz | exact hist_st_depth]. Qed.

(* the theorems apply to the example transaction of EngineRefines *)
Example ex3_no_panic : forall ord msg, run_tx Ex3.ex3_db Ex3.ex3_ops ord <> Panic msg.
Proof.
  intros ord msg. apply run_tx_no_panic; [|exact ex3_db_depth|exact Ex3R.ex3_ops_ok].
  split; [exact ex3_db_ok' | reflexivity].
Qed.

Module CexDepth.
Import Ex3.
Local Open Scope N_scope.
(* a strict search tree whose leaves are NOT at the same depth: the root 3 has a leaf child (11) and a branch
   child (10 over the leaves 12, 13) *)
Definition cex_disk : disk :=
  [ (3, {| ap_over := 0; ap_body := Branches [(kb, 11); (kd, 10)] |});
    (10, {| ap_over := 0; ap_body := Branches [(kd, 12); (kf, 13)] |});
    (11, {| ap_over := 0; ap_body := Leaves [LKv kb [x01]; LKv kc [x02]] |});
    (12, {| ap_over := 0; ap_body := Leaves [LKv kd [x03]; LKv ke [x04]] |});
    (13, {| ap_over := 0; ap_body := Leaves [LKv kf [x05]; LKv kg [x06]] |}) ].
Definition cex_db : db :=
  {| d_disk := cex_disk; d_root := 3; d_next := 6; d_np := 14; d_fl := 2; d_fln := 1; d_flids := [];
     d_tx := 1; d_free := []; d_pending := []; d_psz := 4096 |}.

Example cex_strict : db_strict cex_db.
Proof.
  unfold db_strict. cbn [d_disk d_root cex_db sbk].
  exists 3%nat, (concat [[LKv kb [x01]; LKv kc [x02]]; concat [[LKv kd [x03]; LKv ke [x04]]; [LKv kf [x05]; LKv kg [x06]]]]).
  split; [unfold fuel0; lia|]. split; [|split; [|split]].
  - cbn [PInv]. eexists. split; [reflexivity|]. split; [exact I|]. cbn [ap_body].
    split; [discriminate|]. split; [reflexivity|]. split; [repeat constructor; cbn; intuition (try discriminate; try lia)|].
    split; [solve_inb|]. cbn [map fst cbounds cbs nxt lo0].
    apply Forall2_cons; [|apply Forall2_cons; [|apply Forall2_nil]]; cbn [fst snd]; [leaf_PInv|].
    eexists. split; [reflexivity|]. split; [reflexivity|]. cbn [ap_body].
    split; [discriminate|]. split; [reflexivity|]. split; [repeat constructor; cbn; intuition (try discriminate; try lia)|].
    split; [solve_inb|]. cbn [map fst cbounds cbs nxt lo0].
    apply Forall2_cons; [|apply Forall2_cons; [|apply Forall2_nil]]; cbn [fst snd]; leaf_PInv.
  - vm_compute. repeat constructor; cbn; intuition (try discriminate; try lia).
  - eapply PV_branch; [reflexivity | reflexivity |].
    apply Forall2_cons; [|apply Forall2_cons; [|apply Forall2_nil]]; [eapply PV_leaf; reflexivity|].
    eapply PV_branch; [reflexivity | reflexivity |].
    apply Forall2_cons; [|apply Forall2_cons; [|apply Forall2_nil]]; eapply PV_leaf; reflexivity.
  - cbn [concat app]. repeat constructor.
Qed.

Example cex_okz : db_okz cex_db.
Proof. split; [apply db_ok'b_ok; [exact cex_strict | vm_compute; reflexivity] | reflexivity]. Qed.

Definition cex_ops : list Engine.op := [Del [] kc].
Lemma cex_ops_ok : Forall (op_ok (d_disk cex_db)) cex_ops.
Proof. repeat constructor; cbn; lia. Qed.

(* deleting c leaves leaf 11 with one entry; rebalance merges it into its right sibling, the BRANCH page 10 *)
Example cex_panics : run_tx cex_db cex_ops [] = Panic kind_panic.
Proof. vm_compute. reflexivity. Qed.

(* so [db_okz] alone does not exclude panics: uniform depth is needed -- and [cex_db] does not have it *)
Example cex_not_depth : ~ db_depth cex_db.
Proof. intros H. exact (run_tx_no_panic cex_db cex_ops [] kind_panic cex_okz H cex_ops_ok cex_panics). Qed.

(* but no such state is ever committed by a history from [init_db] *)
Example cex_unreachable : forall P txs, (0 < P)%N -> txs_ok' (init_db P) txs -> run_txs (init_db P) txs <> Ok cex_db.
Proof.
  intros P txs HP Htx H. apply cex_not_depth. exact (proj2 (run_txs_okd txs _ _ (init_db_okd P HP) Htx H)).
Qed.
End CexDepth.

Print Assumptions spill_node_shape.
Print Assumptions spill_root_shape.
Print Assumptions spill_bucket_depth.
Print Assumptions run_tx_depth.
Print Assumptions run_tx_okd.
Print Assumptions run_txs_no_panic.
Print Assumptions run_txs_no_panic_init.
Print Assumptions CexDepth.cex_panics.
Print Assumptions CexDepth.cex_not_depth.
Print Assumptions ex3_no_panic.
Print Assumptions hist_st_okd.
Print Assumptions CexDepth.cex_unreachable.
