(* Completeness of [spill_node]: every page written is a page of the output subtrees or was handed back; every
   committed child page the overlay did not load is a child of an output page; the old run of every loaded node
   is handed back. *)
From Coq Require Import List NArith Bool Arith Lia ZifyN ZifyNat ZifyBool Permutation.
From Coq.Strings Require Import Byte.
From Jamm Require Spec.
From Jamm Require Import Bytes BytesFacts Tree Cursor SearchFacts Engine EngineAbs EngineFacts EngineMergeFacts.
From Jamm Require Import EngineModifyFacts EngineSpillFacts EnginePathFacts EngineBridgeFacts EngineRebalanceFacts.
From Jamm Require FreelistFacts EngineAllocFacts.
From Jamm Require Import EngineSpillWfFacts.
From Jamm Require Import EngineTxInvFacts EngineSpillBucketFacts EngineRefines.
From Jamm Require Import EngineOwnDefs EngineOwnWr EngineNoLeakWr.
Import ListNotations.
Import Coq.Strings.String.StringSyntax. Delimit Scope string_scope with string.
Local Open Scope list_scope. Local Open Scope nat_scope.
Set Warnings "-abstract-large-number".
Arguments N.add : simpl never. Arguments N.sub : simpl never. Arguments N.mul : simpl never.
Arguments N.div : simpl never. Arguments N.ltb : simpl never. Arguments N.leb : simpl never.
Arguments N.eqb : simpl never.

(* ====================================================================== *)
(** * 1. Reachability through written branch pages; unloaded children; old runs *)

(* q is reached from p through branch pages written by the running transaction *)
Inductive wsub (w : list (N * (N * ndata))) : N -> N -> Prop :=
| ws_self : forall p, wsub w p p
| ws_kid : forall p sz es e q, wr_get w p = Some (sz, Branches es) -> In e es -> wsub w (snd e) q -> wsub w p q.

Lemma wsub_mono : forall w w' p q, (forall x v, wr_get w x = Some v -> wr_get w' x = Some v) -> wsub w p q -> wsub w' p q.
Proof.
  intros w w' p q Hm H. induction H as [p | p sz es e q Hg He _ IH]; [apply ws_self | eapply ws_kid; eauto].
Qed.

Lemma wsub_trans : forall w a b c, wsub w a b -> wsub w b c -> wsub w a c.
Proof.
  intros w a b c H. induction H as [p | p sz es e q Hg He _ IH]; intros Hc; [exact Hc | eapply ws_kid; eauto].
Qed.

(* the child pages named by the overlay below n that have no materialised node *)
Inductive uhead : node -> N -> Prop :=
| uh_here : forall p np o sq es ks e, In e es -> find_kid (snd e) ks = None -> uhead (Node p np o sq (Branches es) ks) (snd e)
| uh_kid : forall p np o sq es ks e kd q, In e es -> find_kid (snd e) ks = Some kd -> uhead kd q ->
    uhead (Node p np o sq (Branches es) ks) q.

(* the old page runs of the materialised nodes at and below n *)
Fixpoint oldruns (n : node) : list N :=
  match n with Node p np _ _ _ ks => (if (p =? 0)%N then [] else nrun p np) ++ flat_map oldruns ks end.

Lemma oldruns_eq : forall n, oldruns n = old_pages n ++ flat_map oldruns (n_kids n).
Proof. intros [p np o s dd ks]. reflexivity. Qed.

(* the write-set heads after a frame *)
Lemma frame_heads : forall live s s' alloc dead, frame live s s' alloc dead ->
  (forall q, wr_get (wr s) q <> None -> In q live) -> forall q, wr_get (wr s') q <> None -> In q (alloc ++ live).
Proof.
  intros live s s' alloc dead Hfr Hwl q Hq. apply in_or_app.
  destruct (in_dec N.eq_dec q alloc) as [Hi|Hn]; [now left | right].
  apply Hwl. now rewrite <- (fr_wr _ _ _ _ _ Hfr q Hn).
Qed.

(* an entry of the data written by the tail is a child of an output page *)
Lemma tail_entry : forall w (outl : list (bytes * N)) (pieces : list (list (bytes * N))) e,
  Forall2 (piece_written w) outl (map Branches pieces) -> In e (concat pieces) ->
  exists o, In o outl /\ wsub w (snd o) (snd e).
Proof.
  intros w outl pieces e H. revert outl H. induction pieces as [|pc pieces IH]; intros outl H He; [destruct He|].
  cbn [map] in H. inversion H as [|o dd outl' dds Hpw HF]; subst. cbn [concat] in He. apply in_app_or in He.
  destruct He as [He|He].
  - exists o. split; [now left|]. destruct Hpw as [_ Hg]. eapply ws_kid; [exact Hg | exact He | apply ws_self].
  - destruct (IH outl' HF He) as (o' & Ho' & Hw). exists o'. split; [now right | exact Hw].
Qed.

(* ====================================================================== *)
(** * 2. The specification, and the fold over the kids *)

Section Cov.
Variables (fuel : nat) (d : disk) (keep : list N).

Definition spill_cov (f : nat) : Prop :=
  forall live lo hi n s orig fk p sibs s' h,
    fresh_inv live s -> (forall x, In x keep -> In x live) -> (forall q, wr_get (wr s) q <> None -> In q live) ->
    swfh fuel d keep h lo hi n -> NoDup (upages h d n) ->
    spill_node f n s = Ok ((orig, (fk, p), sibs), s') ->
    xframe s s' /\
    (forall x, In x (oldruns n) -> freed_in_tx s' x = true) /\
    (forall q, uhead n q -> exists e, In e ((fk, p) :: sibs) /\ wsub (wr s') (snd e) q) /\
    (forall q v x, wr_get (wr s') q = Some v -> In x (wrun (psz s') q v) ->
       wr_get (wr s) q <> None \/ freed_in_tx s' x = true \/
       exists e, In e ((fk, p) :: sibs) /\ wsub (wr s') (snd e) q).

Section Fold.
  Variables (f h' : nat) (lo hi : option bytes) (es : list (bytes * N)) (kids : list node).
  Hypothesis IHf : spill_spec2 fuel d keep f.
  Hypothesis IHc : spill_cov f.
  Hypothesis Hes : keys_ok lo hi (map fst es).
  Hypothesis Hnd_es : NoDup (map snd es).
  Hypothesis Hnd_kids : NoDup (map n_page kids).
  Hypothesis Horig : forall kd, In kd kids -> exists k, n_orig kd = Some k /\ In (k, n_page kd) es.
  Hypothesis Hkids : forall l hh e kd, In (l, hh, e) (chb lo hi es) -> find_kid (snd e) kids = Some kd ->
                                       swfh fuel d keep h' l hh kd.
  Hypothesis Hup_nd : forall kd, In kd kids -> NoDup (upages h' d kd).

  Lemma kids_fold_cov : forall todo outs live s d1 s1,
    fresh_inv live s -> (forall x, In x keep -> In x live) -> (forall q, wr_get (wr s) q <> None -> In q live) ->
    NoDup (map n_page todo) -> (forall kd, In kd todo -> In kd kids) ->
    (forall kd, In kd todo -> find_out outs (n_page kd) = None) ->
    (forall l h e, In (l, h, e) (chb lo hi es) -> keys_ok l h (map fst (seg_of outs e))) ->
    fold_res (spill_kid_step f) todo (Branches (flat_map (seg_of outs) es), s) = Ok (d1, s1) ->
    exists outs' alloc,
      d1 = Branches (flat_map (seg_of outs') es) /\ xframe s s1 /\
      fresh_inv (alloc ++ live) s1 /\ (forall q, wr_get (wr s1) q <> None -> In q (alloc ++ live)) /\
      (forall q, ~ In q (map n_page todo) -> find_out outs' q = find_out outs q) /\
      (forall kd, In kd todo -> exists out, find_out outs' (n_page kd) = Some out /\
           (forall x, In x (oldruns kd) -> freed_in_tx s1 x = true) /\
           (forall q, uhead kd q -> exists e, In e out /\ wsub (wr s1) (snd e) q)) /\
      (forall q v x, wr_get (wr s1) q = Some v -> In x (wrun (psz s1) q v) ->
         wr_get (wr s) q <> None \/ freed_in_tx s1 x = true \/
         exists kd out e, In kd todo /\ find_out outs' (n_page kd) = Some out /\ In e out /\ wsub (wr s1) (snd e) q).
  Proof.
    induction todo as [|kd todo IH]; intros outs live s d1 s1 Hfi Hkl Hwl Hnd Hsub Hnone Hsegs H.
    - cbn [fold_res] in H. inversion H; subst d1 s1. exists outs, []. cbn [app].
      split; [reflexivity|]. split; [apply xframe_refl|]. split; [exact Hfi|]. split; [exact Hwl|].
      split; [reflexivity|]. split; [intros k []|]. intros q v x Hq _. left. congruence.
    - cbn [fold_res] in H.
      destruct (spill_kid_step f (Branches (flat_map (seg_of outs) es), s) kd) as [[d2 s2]| |] eqn:Hstep;
        try discriminate.
      cbn [bind] in H. unfold spill_kid_step in Hstep.
      destruct (spill_node f kd s) as [[[[ko [fk p]] sibs] sk]| |] eqn:Hsp; try discriminate.
      cbn [bind] in Hstep.
      assert (Hkd : In kd kids) by (apply Hsub; left; reflexivity).
      destruct (Horig kd Hkd) as (k & Eorig & Hin_es).
      set (q := n_page kd) in *.
      destruct (chb_In lo hi es _ Hin_es) as (l & h & Hchb).
      pose proof (EngineSpillFacts.find_kid_NoDup kids kd Hnd_kids Hkd) as Hfk. fold q in Hfk.
      pose proof (Hkids l h (k, q) kd Hchb Hfk) as Hswf.
      destruct (IHf _ _ _ _ _ _ _ _ _ _ _ Hfi Hkl Hswf (Hup_nd kd Hkd) Hsp)
        as (a1 & dd1 & g1 & Hfr1 & Hg1a & Hg1p & Eko & HK0 & _).
      destruct (IHc _ _ _ _ _ _ _ _ _ _ _ Hfi Hkl Hwl Hswf (Hup_nd kd Hkd) Hsp) as (X1 & Ho1 & Hu1 & Hw1).
      rewrite Eorig in Eko. subst ko.
      assert (HK : forall l' hh', In (l', hh', (k, q)) (chb lo hi es) ->
                                 keys_ok l' hh' (map fst ((fk, p) :: sibs))).
      { intros l' hh' Hc. pose proof (Hkids l' hh' (k, q) kd Hc Hfk) as Hswf'.
        destruct (IHf _ _ _ _ _ _ _ _ _ _ _ Hfi Hkl Hswf' (Hup_nd kd Hkd) Hsp) as (_ & _ & _ & _ & _ & _ & _ & Hk & _). exact Hk. }
      set (K := (fk, p) :: sibs) in *.
      set (outs1 := (q, K) :: outs).
      assert (Hq_none : find_out outs q = None) by (apply Hnone; left; reflexivity).
      assert (Hseg_same : forall e, In e es -> e <> (k, q) -> seg_of outs1 e = seg_of outs e).
      { intros e He Hne. unfold seg_of, outs1. rewrite find_out_cons.
        destruct (N.eqb_spec q (snd e)) as [E|E]; [|reflexivity].
        exfalso. apply Hne. apply (NoDup_map_inj snd es _ _ Hnd_es He Hin_es). cbn [snd]. congruence. }
      assert (Hseg_q : seg_of outs1 (k, q) = K).
      { unfold seg_of, outs1. rewrite find_out_cons. cbn [snd]. rewrite N.eqb_refl. reflexivity. }
      assert (Hseg_q0 : seg_of outs (k, q) = [(k, q)]).
      { unfold seg_of. cbn [snd]. rewrite Hq_none. reflexivity. }
      assert (Hsegs1 : forall l' hh' e, In (l', hh', e) (chb lo hi es) -> keys_ok l' hh' (map fst (seg_of outs1 e))).
      { intros l' hh' e Hc. destruct (N.eq_dec (snd e) q) as [E|E].
        - assert (e = (k, q)).
          { apply (NoDup_map_inj snd es _ _ Hnd_es (chb_In_inv _ _ _ _ _ _ Hc) Hin_es). exact E. }
          subst e. rewrite Hseg_q. apply HK, Hc.
        - rewrite Hseg_same; [apply Hsegs, Hc|apply (chb_In_inv _ _ _ _ _ _ Hc)|].
          intros E'. apply E. rewrite E'. reflexivity. }
      destruct Hes as (_ & Hes_s & Hes_r).
      destruct (segs_sorted (seg_of outs) es lo hi Hes_s Hes_r Hsegs) as [Hsort0 _].
      destruct (segs_sorted (seg_of outs1) es lo hi Hes_s Hes_r Hsegs1) as [Hsort1 _].
      destruct (in_split _ _ Hin_es) as (A & B & EAB).
      assert (HA : forall e, In e A -> seg_of outs1 e = seg_of outs e).
      { intros e He. apply Hseg_same.
        - rewrite EAB. apply in_or_app. left. exact He.
        - intros ->. rewrite EAB, map_app in Hes_s. cbn [map fst] in Hes_s.
          destruct (sorted_mid _ _ _ Hes_s) as [HlA _]. rewrite Forall_forall in HlA.
          specialize (HlA k (in_map fst _ _ He)). rewrite SearchFacts.bcmp_refl in HlA. discriminate. }
      assert (HB : forall e, In e B -> seg_of outs1 e = seg_of outs e).
      { intros e He. apply Hseg_same.
        - rewrite EAB. apply in_or_app. right. right. exact He.
        - intros ->. rewrite EAB, map_app in Hes_s. cbn [map fst] in Hes_s.
          destruct (sorted_mid _ _ _ Hes_s) as [_ HlB]. rewrite Forall_forall in HlB.
          specialize (HlB k (in_map fst _ _ He)). rewrite SearchFacts.bcmp_refl in HlB. discriminate. }
      assert (E0 : flat_map (seg_of outs) es = flat_map (seg_of outs) A ++ (k, q) :: flat_map (seg_of outs) B).
      { rewrite EAB at 1. rewrite flat_map_app. cbn [flat_map]. rewrite Hseg_q0. reflexivity. }
      assert (E1 : flat_map (seg_of outs1) es = flat_map (seg_of outs) A ++ K ++ flat_map (seg_of outs) B).
      { rewrite EAB at 1. rewrite flat_map_app. cbn [flat_map]. rewrite Hseg_q.
        rewrite (flat_map_ext_in _ _ A HA), (flat_map_ext_in _ _ B HB). reflexivity. }
      rewrite E0 in Hsort0, Hstep. rewrite E1 in Hsort1.
      rewrite (insert_branch_replace _ _ _ _ (fk, p) Hsort0) in Hstep. cbn [bind] in Hstep.
      change (flat_map (seg_of outs) A ++ (fk, p) :: flat_map (seg_of outs) B)
        with (flat_map (seg_of outs) A ++ [(fk, p)] ++ flat_map (seg_of outs) B) in Hstep.
      rewrite (insert_branch_sibs sibs _ [(fk, p)] _ Hsort1) in Hstep. cbn [bind] in Hstep.
      inversion Hstep; subst d2 s2. clear Hstep.
      assert (EH : flat_map (seg_of outs) A ++ (fk, p) :: sibs ++ flat_map (seg_of outs) B
                   = flat_map (seg_of outs1) es) by (rewrite E1; reflexivity).
      rewrite EH in H. clear EH.
      inversion Hnd as [|x0 l0 Hq_notin Hnd' Ex0]; subst x0 l0.
      assert (Hnone1 : forall kd', In kd' todo -> find_out outs1 (n_page kd') = None).
      { intros kd' Hk'. unfold outs1. rewrite find_out_cons.
        destruct (N.eqb_spec q (n_page kd')) as [E|E].
        - exfalso. apply Hq_notin. fold q. rewrite E. apply in_map, Hk'.
        - apply Hnone. right. exact Hk'. }
      pose proof (fr_fresh _ _ _ _ _ Hfr1) as Hfik.
      assert (Hkl1 : forall x, In x keep -> In x (a1 ++ live)).
      { intros x Hx. apply in_or_app. right. apply Hkl, Hx. }
      pose proof (frame_heads _ _ _ _ _ Hfr1 Hwl) as Hwlk.
      destruct (IH outs1 (a1 ++ live) sk d1 s1 Hfik Hkl1 Hwlk Hnd'
                   (fun kd' Hk' => Hsub kd' (or_intror Hk')) Hnone1 Hsegs1 H)
        as (outs' & a2 & Ed1 & X2 & Hfi2 & Hwl2 & Hother & Hdone & Hwr2).
      exists outs', (a2 ++ a1). split; [exact Ed1|]. split; [eapply xframe_trans; eauto|].
      split; [now rewrite <- app_assoc|]. split; [now rewrite <- app_assoc|].
      assert (HfindK : find_out outs' q = Some K).
      { rewrite Hother by exact Hq_notin. unfold outs1. rewrite find_out_cons, N.eqb_refl. reflexivity. }
      split.
      { intros x Hx. rewrite Hother; [|intros Hi; apply Hx; right; exact Hi].
        unfold outs1. rewrite find_out_cons. destruct (N.eqb_spec q x) as [E|E]; [|reflexivity].
        exfalso. apply Hx. left. exact E. }
      split.
      { intros kd' [<-|Hk'].
        - exists K. split; [exact HfindK|]. split.
          + intros x Hx. apply (xf_freed _ _ X2), Ho1, Hx.
          + intros q0 Hq0. destruct (Hu1 q0 Hq0) as (e & He & Hw). exists e. split; [exact He|].
            eapply wsub_mono; [apply (xf_wr _ _ X2) | exact Hw].
        - exact (Hdone kd' Hk'). }
      intros q0 v x Hq0 Hx. destruct (Hwr2 q0 v x Hq0 Hx) as [A0|[A0|(kd' & out & e & A1 & A2 & A3 & A4)]].
      + destruct (wr_get (wr sk) q0) as [v'|] eqn:Ev; [|congruence].
        assert (v' = v) by (pose proof (xf_wr _ _ X2 _ _ Ev) as E'; congruence). subst v'.
        rewrite (xf_psz _ _ X2) in Hx.
        destruct (Hw1 q0 v x Ev Hx) as [B0|[B0|(e & B1 & B2)]].
        * now left.
        * right; left. apply (xf_freed _ _ X2), B0.
        * right; right. exists kd, K, e. split; [now left|]. split; [exact HfindK|]. split; [exact B1|].
          eapply wsub_mono; [apply (xf_wr _ _ X2) | exact B2].
      + right; left. exact A0.
      + right; right. exists kd', out, e. split; [now right|]. auto.
  Qed.
End Fold.
End Cov.

(* ====================================================================== *)
(** * 3. [spill_node] *)

Lemma out_page_entry : forall (fk : bytes) (p : N) (sibs : list (bytes * N)) q w,
  In q (p :: map snd sibs) -> exists e, In e ((fk, p) :: sibs) /\ wsub w (snd e) q.
Proof.
  intros fk p sibs q w [<-|H].
  - exists (fk, p). split; [now left | apply ws_self].
  - apply in_map_iff in H. destruct H as (e & <- & He). exists e. split; [now right | apply ws_self].
Qed.

Theorem spill_node_cov fuel d keep : forall f, spill_cov fuel d keep f.
Proof.
  induction f as [|f IHc]; intros live lo hi n s orig fk p sibs s' h Hfi Hkl Hwl Hswfh Hupnd H; [discriminate|].
  rewrite spill_node_unfold in H.
  inversion Hswfh as [h0 lo0 hi0 pg npg o sq l Hkeys
                     |h0 lo0 hi0 pg npg o sq es kids Hes Hnd_es Hnd_kids Horig Hkids Hstab'];
    subst lo0 hi0 n h.
  - (* a leaf *)
    cbn [n_kids n_data kid_keys fold_res bind isort_by map] in H.
    set (n := Node pg npg o sq (Leaves l) []) in *.
    destruct (spill_tail_cov live n _ s orig fk p sibs s' Hfi Hwl H) as (X & Hold & Hw).
    split; [exact X|]. split; [|split].
    + intros x Hx. rewrite oldruns_eq in Hx. cbn [n n_kids flat_map] in Hx. rewrite app_nil_r in Hx.
      apply Hold. now apply In_old_pages.
    + intros q Hq. inversion Hq.
    + intros q v x Hq Hx. destruct (Hw q v x Hq Hx) as [A|[A|A]]; [now left | | now (right; left)].
      right; right. now apply out_page_entry.
  - (* a branch *)
    cbn [n_kids n_data] in H.
    set (n := Node pg npg o sq (Branches es) kids) in *.
    destruct (kid_keys kids) as [ks| |] eqn:Hkk; try discriminate. cbn [bind] in H.
    set (todo := map snd (isort_by fst ks)) in *.
    assert (Hperm : Permutation todo kids).
    { unfold todo. rewrite <- (kid_keys_snd _ _ Hkk). apply Permutation_map, isort_by_perm. }
    destruct (fold_res (spill_kid_step f) todo (Branches es, s)) as [[d1 s1]| |] eqn:Hfold; try discriminate.
    cbn [bind] in H.
    unfold n in Hupnd. cbn [upages] in Hupnd.
    set (Uc := fun e : bytes * N => match find_kid (snd e) kids with
                                    | Some kd => upages h0 d kd | None => snd e :: ppages h0 d (snd e) end) in Hupnd.
    assert (HUkid : forall kd, In kd kids -> exists k, In (k, n_page kd) es /\ Uc (k, n_page kd) = upages h0 d kd).
    { intros kd Hkd. destruct (Horig kd Hkd) as (k & _ & Hi). exists k. split; [exact Hi|]. unfold Uc. cbn [snd].
      rewrite (EngineSpillFacts.find_kid_NoDup kids kd Hnd_kids Hkd). reflexivity. }
    assert (Hup_nd : forall kd, In kd kids -> NoDup (upages h0 d kd)).
    { intros kd Hkd. destruct (HUkid kd Hkd) as (k & Hi & <-). apply (NoDup_flat_map_elim Uc es _ Hupnd Hi). }
    pose proof Hes as Hes0.
    destruct Hes as (Hes_ne & Hes_s & Hes_r).
    assert (Hsegs0 : forall l h e, In (l, h, e) (chb lo hi es) -> keys_ok l h (map fst (seg_of [] e))).
    { intros l h e Hi. cbn [seg_of find_out find option_map map]. split; [discriminate|]. split; [reflexivity|].
      intros k [<-|[]]. apply (chb_self es lo hi Hes_s Hes_r _ _ _ Hi). }
    assert (E0 : es = flat_map (seg_of []) es) by (symmetry; apply flat_map_single).
    rewrite E0 in Hfold at 1.
    destruct (kids_fold_cov fuel d keep f h0 lo hi es kids (spill_node_spec2 fuel d keep f) IHc Hes0 Hnd_es Hnd_kids
                Horig Hkids Hup_nd todo [] live s d1 s1 Hfi Hkl Hwl)
      as (outs & a1 & Ed1 & X1 & Hfi1 & Hwl1 & Hother & Hdone & Hwr1); try assumption.
    { apply (Permutation_NoDup (l := map n_page kids)); [apply Permutation_map; symmetry; exact Hperm|exact Hnd_kids]. }
    { intros kd Hk. apply (Permutation_in _ Hperm Hk). }
    { reflexivity. }
    subst d1. set (es_fin := flat_map (seg_of outs) es) in *.
    destruct (spill_tail_spec _ _ _ _ _ _ _ _ _ Hfi1 H)
      as (d0 & rest & a2 & stale & Esp & Eo & Hpw & _).
    destruct (spill_tail_cov _ n _ s1 orig fk p sibs s' Hfi1 Hwl1 H) as (X2 & Hold & Hw2).
    destruct (split_branches s1 es_fin) as (e0 & ess & Esp' & Hcat & _). rewrite Esp' in Esp.
    inversion Esp; subst d0 rest.
    change (Branches e0 :: map Branches ess) with (map Branches (e0 :: ess)) in Hpw.
    (* an entry of the final data is a child of an output page *)
    assert (Hfin : forall e, In e es_fin -> exists o, In o ((fk, p) :: sibs) /\ wsub (wr s') (snd o) (snd e)).
    { intros e He. apply (tail_entry _ _ (e0 :: ess) e Hpw). cbn [concat]. now rewrite Hcat. }
    (* what a kid reaches is reached from an output page *)
    assert (Hvia : forall kd out e q, In kd todo -> find_out outs (n_page kd) = Some out -> In e out ->
              wsub (wr s1) (snd e) q -> exists o, In o ((fk, p) :: sibs) /\ wsub (wr s') (snd o) q).
    { intros kd out e q Hkt Ho He Hw.
      assert (Hkd : In kd kids) by (apply (Permutation_in _ Hperm Hkt)).
      destruct (Horig kd Hkd) as (k & _ & Hin).
      assert (Hef : In e es_fin).
      { unfold es_fin. apply in_flat_map. exists (k, n_page kd). split; [exact Hin|]. unfold seg_of. cbn [snd]. now rewrite Ho. }
      destruct (Hfin e Hef) as (o0 & Ho0 & Hw0). exists o0. split; [exact Ho0|].
      eapply wsub_trans; [exact Hw0|]. eapply wsub_mono; [apply (xf_wr _ _ X2) | exact Hw]. }
    split; [eapply xframe_trans; eauto|]. split; [|split].
    + intros x Hx. rewrite oldruns_eq in Hx. apply in_app_or in Hx. destruct Hx as [Hx|Hx].
      * apply Hold. now apply In_old_pages.
      * cbn [n n_kids] in Hx. apply in_flat_map in Hx. destruct Hx as (kd & Hkd & Hx).
        assert (Hkt : In kd todo) by (apply (Permutation_in _ (Permutation_sym Hperm) Hkd)).
        destruct (Hdone kd Hkt) as (out & _ & Hfo & _). apply (xf_freed _ _ X2), Hfo, Hx.
    + intros q Hq. inversion Hq as [? ? ? ? ? ? e He Hf | ? ? ? ? ? ? e kd q0 He Hf Hu]; subst.
      * apply Hfin. unfold es_fin. apply in_flat_map. exists e. split; [exact He|].
        assert (Hno : find_out outs (snd e) = None).
        { rewrite Hother; [reflexivity|]. intros Hi. apply (find_kid_none _ _ Hf).
          apply (Permutation_in _ (Permutation_map n_page Hperm) Hi). }
        unfold seg_of. rewrite Hno. now left.
      * destruct (EngineSpillFacts.find_kid_In _ _ _ Hf) as [Hkd Epg].
        assert (Hkt : In kd todo) by (apply (Permutation_in _ (Permutation_sym Hperm) Hkd)).
        destruct (Hdone kd Hkt) as (out & Ho & _ & Hu1). destruct (Hu1 q Hu) as (e1 & He1 & Hw1).
        eapply Hvia; eauto.
    + intros q v x Hq Hx. destruct (Hw2 q v x Hq Hx) as [A|[A|A]].
      * destruct (wr_get (wr s1) q) as [v'|] eqn:Ev; [|congruence].
        assert (v' = v) by (pose proof (xf_wr _ _ X2 _ _ Ev) as E'; congruence). subst v'.
        rewrite (xf_psz _ _ X2) in Hx.
        destruct (Hwr1 q v x Ev Hx) as [B|[B|(kd & out & e & B1 & B2 & B3 & B4)]].
        -- now left.
        -- right; left. apply (xf_freed _ _ X2), B.
        -- right; right. eapply Hvia; eauto.
      * right; right. now apply out_page_entry.
      * right; left. exact A.
Qed.

Print Assumptions spill_node_cov.

(* ====================================================================== *)
(** * 4. [spill_root]: the loop that writes new root levels *)

Lemma root_loop_cov : forall f live s fk p sibs p' s',
  fresh_inv live s -> (forall q, wr_get (wr s) q <> None -> In q live) ->
  match sibs with
  | [] => Ok (p, s)
  | _ => spill_root f (Node 0 0 (Some fk) 0 (Branches ((fk, p) :: sibs)) []) s
  end = Ok (p', s') ->
  xframe s s' /\
  (forall e, In e ((fk, p) :: sibs) -> wsub (wr s') p' (snd e)) /\
  (forall q v x, wr_get (wr s') q = Some v -> In x (wrun (psz s') q v) ->
     wr_get (wr s) q <> None \/ freed_in_tx s' x = true \/ wsub (wr s') p' q).
Proof.
  induction f as [|f IH]; intros live s fk p sibs p' s' Hfi Hwl H.
  - destruct sibs as [|sb sibs]; [|discriminate]. inversion H; subst p' s'.
    split; [apply xframe_refl|]. split; [intros e [<-|[]]; apply ws_self|]. intros q v x Hq _. left. congruence.
  - destruct sibs as [|sb sibs].
    + inversion H; subst p' s'.
      split; [apply xframe_refl|]. split; [intros e [<-|[]]; apply ws_self|]. intros q v x Hq _. left. congruence.
    + set (K := (fk, p) :: sb :: sibs) in *. set (nr := Node 0 0 (Some fk) 0 (Branches K) []) in *.
      cbn [spill_root] in H. cbn [nr n_data K] in H. fold K in H. fold nr in H.
      destruct (spill_node fuel0 nr s) as [[[[o1 [fk1 p1]] sibs1] s1]| |] eqn:Hsp; try discriminate.
      cbn [bind] in H.
      change fuel0 with (S 63) in Hsp. rewrite spill_node_nokids in Hsp by reflexivity. cbn [nr n_data] in Hsp. fold nr in Hsp.
      destruct (spill_tail_spec _ _ _ _ _ _ _ _ _ Hfi Hsp)
        as (d0 & rest & a1 & stale & Esp & _ & Hpw & _ & _ & Hfr1 & _).
      destruct (spill_tail_cov live nr _ s o1 fk1 p1 sibs1 s1 Hfi Hwl Hsp) as (X1 & _ & Hw1).
      destruct (split_branches s K) as (e0 & ess & Esp' & Hcat & _). rewrite Esp' in Esp.
      inversion Esp; subst d0 rest.
      change (Branches e0 :: map Branches ess) with (map Branches (e0 :: ess)) in Hpw.
      destruct (IH (a1 ++ live) s1 fk1 p1 sibs1 p' s' (fr_fresh _ _ _ _ _ Hfr1) (frame_heads _ _ _ _ _ Hfr1 Hwl) H)
        as (X2 & Hent2 & Hw2).
      split; [eapply xframe_trans; eauto|]. split.
      * intros e He.
        destruct (tail_entry (wr s1) _ (e0 :: ess) e Hpw) as (o & Ho & Hwo); [cbn [concat]; now rewrite Hcat|].
        eapply wsub_trans; [apply Hent2, Ho|]. eapply wsub_mono; [apply (xf_wr _ _ X2) | exact Hwo].
      * intros q v x Hq Hx. destruct (Hw2 q v x Hq Hx) as [A|[A|A]]; [|now (right; left) | now (right; right)].
        destruct (wr_get (wr s1) q) as [v'|] eqn:Ev; [|congruence].
        assert (v' = v) by (pose proof (xf_wr _ _ X2 _ _ Ev) as E'; congruence). subst v'.
        rewrite (xf_psz _ _ X2) in Hx.
        destruct (Hw1 q v x Ev Hx) as [B|[B|B]]; [now left | | right; left; apply (xf_freed _ _ X2), B].
        right; right. destruct (out_page_entry fk1 p1 sibs1 q (wr s1) B) as (e & He & Hwe).
        eapply wsub_trans; [apply Hent2, He|]. eapply wsub_mono; [apply (xf_wr _ _ X2) | exact Hwe].
Qed.

(* the root node of a dirty bucket that is not the empty leaf *)
Theorem spill_root_cov fuel d keep live f n s p s' h :
  fresh_inv live s -> (forall x, In x keep -> In x live) -> (forall q, wr_get (wr s) q <> None -> In q live) ->
  swfh fuel d keep h None None n -> NoDup (upages h d n) ->
  spill_root f n s = Ok (p, s') ->
  xframe s s' /\
  (forall x, In x (oldruns n) -> freed_in_tx s' x = true) /\
  (forall q, uhead n q -> wsub (wr s') p q) /\
  (forall q v x, wr_get (wr s') q = Some v -> In x (wrun (psz s') q v) ->
     wr_get (wr s) q <> None \/ freed_in_tx s' x = true \/ wsub (wr s') p q).
Proof.
  intros Hfi Hkl Hwl Hswfh Hupnd H. destruct f as [|f]; [discriminate|]. cbn [spill_root] in H.
  pose proof (swfh_swf _ _ _ _ _ _ _ Hswfh) as Hswf.
  assert (Hsp : exists o fk p1 sibs s1, spill_node fuel0 n s = Ok ((o, (fk, p1), sibs), s1) /\
                  match sibs with [] => Ok (p1, s1)
                  | _ => spill_root f (Node 0 0 (Some fk) 0 (Branches ((fk, p1) :: sibs)) []) s1 end = Ok (p, s')).
  { assert (E : (match n_data n with
                 | Leaves [] => let '(n1, s'0) := write_node s (set_kids n []) in Ok ((n_orig n, ([], n_page n1), []), s'0)
                 | _ => spill_node fuel0 n s end) = spill_node fuel0 n s).
    { inversion Hswf as [? ? ? ? ? ? l Hk|]; subst; cbn [n_data]; [|reflexivity].
      destruct l as [|e l]; [destruct Hk as [Hk _]; exfalso; apply Hk; reflexivity|reflexivity]. }
    rewrite E in H. destruct (spill_node fuel0 n s) as [[[[o [fk p1]] sibs] s1]| |]; try discriminate.
    cbn [bind] in H. exists o, fk, p1, sibs, s1. split; [reflexivity|exact H]. }
  destruct Hsp as (o & fk & p1 & sibs & s1 & Hsp & Hloop).
  destruct (spill_node_spec2 fuel d keep fuel0 _ _ _ _ _ _ _ _ _ _ _ Hfi Hkl Hswfh Hupnd Hsp)
    as (a1 & dd1 & g1 & Hfr1 & _).
  destruct (spill_node_cov fuel d keep fuel0 _ _ _ _ _ _ _ _ _ _ _ Hfi Hkl Hwl Hswfh Hupnd Hsp) as (X1 & Ho1 & Hu1 & Hw1).
  destruct (root_loop_cov f (a1 ++ live) s1 fk p1 sibs p s' (fr_fresh _ _ _ _ _ Hfr1) (frame_heads _ _ _ _ _ Hfr1 Hwl) Hloop)
    as (X2 & Hent2 & Hw2).
  split; [eapply xframe_trans; eauto|]. split; [intros x Hx; apply (xf_freed _ _ X2), Ho1, Hx|]. split.
  - intros q Hq. destruct (Hu1 q Hq) as (e & He & Hwe).
    eapply wsub_trans; [apply Hent2, He|]. eapply wsub_mono; [apply (xf_wr _ _ X2) | exact Hwe].
  - intros q v x Hq Hx. destruct (Hw2 q v x Hq Hx) as [A|[A|A]]; [|now (right; left) | now (right; right)].
    destruct (wr_get (wr s1) q) as [v'|] eqn:Ev; [|congruence].
    assert (v' = v) by (pose proof (xf_wr _ _ X2 _ _ Ev) as E'; congruence). subst v'.
    rewrite (xf_psz _ _ X2) in Hx.
    destruct (Hw1 q v x Ev Hx) as [B|[B|(e & He & Hwe)]]; [now left | right; left; apply (xf_freed _ _ X2), B|].
    right; right. eapply wsub_trans; [apply Hent2, He|]. eapply wsub_mono; [apply (xf_wr _ _ X2) | exact Hwe].
Qed.

(* the root that is the empty leaf: one write *)
Lemma spill_root_empty_cov : forall live f n s p s', fresh_inv live s -> (forall q, wr_get (wr s) q <> None -> In q live) ->
  n_data n = Leaves [] -> spill_root f n s = Ok (p, s') ->
  xframe s s' /\ (forall x, old_run n x -> freed_in_tx s' x = true) /\
  (forall q, wr_get (wr s') q <> None -> wr_get (wr s) q <> None \/ q = p).
Proof.
  intros live f n s p s' Hfi Hwl Hn H. destruct f as [|f]; [discriminate|]. cbn [spill_root] in H.
  rewrite Hn in H. destruct (write_node s (set_kids n [])) as [n1 s1] eqn:Hw. cbn [bind] in H.
  inversion H; subst p s'. clear H.
  pose proof (write_node_cov live s _ n1 s1 Hfi Hwl Hw) as C. cbv zeta in C.
  destruct C as (X & _ & _ & _ & Ewr & _ & Hfreed & _).
  split; [exact X|]. split.
  - intros x Hx. apply Hfreed. right. destruct n; exact Hx.
  - intros q Hq. rewrite Ewr, wr_get_put in Hq. destruct (N.eqb_spec (n_page n1) q) as [E|E]; [now right | now left].
Qed.

Print Assumptions spill_root_cov.
