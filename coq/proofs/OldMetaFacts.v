(* The legacy (<= 0.10) header format: SHA3-256 digest length, encode/decode round trip, and what
   open() (select_any) does with an all-legacy file and with a mixed (one current, one legacy) file. *)
From Coq Require Import List NArith Bool String Lia ZifyN ZifyBool.
From Coq.Strings Require Import Byte.
From Jamm Require Import Bytes Fnv Consts CLayout Meta Keccak OldMeta BytesFacts FnvFacts MetaFacts.
Import ListNotations.
Local Open Scope string_scope. Local Open Scope list_scope. Local Open Scope N_scope.

Notation length := List.length.

Arguments N.add : simpl never.
Arguments N.mul : simpl never.
Arguments N.sub : simpl never.
Arguments N.div : simpl never.
Arguments N.modulo : simpl never.
Arguments N.pow : simpl never.

(* ------------------------------------------------------------------ *)
(** * SHA3-256 produces 32 bytes *)

Lemma rho_pi_length st : length (rho_pi st) = 25%nat.
Proof. unfold rho_pi. rewrite map_length. reflexivity. Qed.

Lemma chi_length_25 l : length l = 25%nat -> length (chi l) = 25%nat.
Proof.
  intros H.
  do 25 (destruct l as [|? l]; [discriminate H|]).
  destruct l; [|discriminate H]. reflexivity.
Qed.

Lemma iota_length rc st : length (iota rc st) = length st.
Proof. destruct st; reflexivity. Qed.

(* one round yields a 25-lane state whatever it is given *)
Lemma keccak_round_length rc st : length (keccak_round rc st) = 25%nat.
Proof. unfold keccak_round. rewrite iota_length. apply chi_length_25, rho_pi_length. Qed.

Lemma keccak_rounds_length rcs st :
  length st = 25%nat -> length (keccak_rounds rcs st) = 25%nat.
Proof.
  revert st. induction rcs as [|rc rcs IH]; intros st H; cbn [keccak_rounds]; [exact H|].
  apply IH, keccak_round_length.
Qed.

Lemma keccak_rounds_cons_length rc rcs st : length (keccak_rounds (rc :: rcs) st) = 25%nat.
Proof. cbn [keccak_rounds]. apply keccak_rounds_length, keccak_round_length. Qed.

(* at least one round is run, so the result has 25 lanes whatever the input *)
Lemma keccak_f_length_25 st : length (keccak_f st) = 25%nat.
Proof. unfold keccak_f, round_constants. apply keccak_rounds_cons_length. Qed.

Lemma absorb_block_length st blk : length (absorb_block st blk) = 25%nat.
Proof. apply keccak_f_length_25. Qed.

Lemma absorb_length msg : forall st acc room, length (absorb st acc room msg) = 25%nat.
Proof.
  induction msg as [|b rest IH]; intros st acc room; cbn [absorb].
  - apply absorb_block_length.
  - destruct room as [|[|r]]; apply IH.
Qed.

Lemma bytes_of_lane_length w : length (bytes_of_lane w) = 8%nat.
Proof. reflexivity. Qed.

Lemma squeeze32_length st : (4 <= length st)%nat -> length (squeeze32 st) = 32%nat.
Proof.
  intros H. unfold squeeze32.
  do 4 (destruct st as [|? st]; [cbn [length] in H; lia|]).
  cbn [firstn flat_map]. rewrite !app_length, !bytes_of_lane_length. reflexivity.
Qed.

Theorem sha3_256_length : forall msg, length (sha3_256 msg) = 32%nat.
Proof.
  intros msg. unfold sha3_256. apply squeeze32_length. rewrite absorb_length. lia.
Qed.
Print Assumptions sha3_256_length.

Lemma old_hash_length : forall m, List.length (old_hash m) = 32%nat.
Proof. intros m. apply sha3_256_length. Qed.
Print Assumptions old_hash_length.

(* from here on the digest and the checksum are black boxes *)
Global Opaque sha3_256 fnv.

(* ------------------------------------------------------------------ *)
(** * the legacy offsets *)

Ltac ooffs :=
  unfold off_pg_id, off_pg_type, oo_meta_page, oo_magic, oo_version, oo_pagesize, oo_root, oo_next,
         oo_np, oo_fl, oo_tx, oo_hash, old_hash_len, old_meta_end, meta_end, type_meta in *.

(* the legacy record keeps the current field offsets; the checksum sits where the 8-byte one does *)
Lemma old_offsets_same :
  oo_meta_page = o_meta_page /\ oo_magic = o_magic /\ oo_version = o_version /\ oo_pagesize = o_pagesize /\
  oo_root = o_root /\ oo_next = o_next /\ oo_np = o_np /\ oo_fl = o_fl /\ oo_tx = o_tx /\ oo_hash = o_hash.
Proof. repeat split; reflexivity. Qed.

(* ------------------------------------------------------------------ *)
(** * encode as a list of disjoint writes *)

Definition old_enc_list (m : meta) : list (N * bytes) :=
  [ (off_pg_id, le_enc 8 (m_page m));
    (off_pg_type, le_enc 1 type_meta);
    (oo_meta_page, le_enc 4 (m_page m));
    (oo_magic, le_enc 4 (m_magic m));
    (oo_version, le_enc 4 (m_version m));
    (oo_pagesize, le_enc 8 (m_psz m));
    (oo_root, le_enc 8 (m_root m));
    (oo_next, le_enc 8 (m_next m));
    (oo_np, le_enc 8 (m_np m));
    (oo_fl, le_enc 8 (m_fl m));
    (oo_tx, le_enc 8 (m_tx m));
    (oo_hash, old_hash m) ].

Lemma old_encode_eq P m : encode_old_meta_page P m = puts (old_enc_list m) (zeros (N.to_nat P)).
Proof. reflexivity. Qed.

Lemma old_enc_fits P m :
  old_meta_end <= P -> Forall (fits (length (zeros (N.to_nat P)))) (old_enc_list m).
Proof.
  intros HP. rewrite zeros_length. unfold old_enc_list.
  repeat (apply Forall_cons;
    [unfold fits; cbn [fst snd]; rewrite ?le_enc_length, ?old_hash_length; ooffs; lia|]).
  apply Forall_nil.
Qed.

Lemma old_encode_length P m : old_meta_end <= P -> length (encode_old_meta_page P m) = N.to_nat P.
Proof.
  intros HP. rewrite old_encode_eq, puts_length by now apply old_enc_fits. apply zeros_length.
Qed.

Lemma old_enc_slice P m j o v :
  old_meta_end <= P -> nth_error (old_enc_list m) j = Some (o, v) ->
  slice (encode_old_meta_page P m) o (N.of_nat (length v)) = Some v.
Proof.
  intros HP Hj. rewrite old_encode_eq.
  eapply slice_puts_nth; [now apply old_enc_fits | exact Hj |].
  unfold old_enc_list in *.
  do 12 (destruct j as [|j];
    [ cbn [nth_error] in Hj; apply Some_pair_inv in Hj; destruct Hj as [<- <-]; cbn [skipn];
      repeat (apply Forall_cons;
        [unfold apart; cbn [fst snd]; rewrite ?le_enc_length, ?old_hash_length; ooffs; lia|]);
      apply Forall_nil | ]).
  cbn [nth_error] in Hj. destruct j; discriminate.
Qed.

Section OldSlices.
  Variables (P : N) (m : meta).
  Hypothesis HP : old_meta_end <= P.
  Let pg := encode_old_meta_page P m.

  Lemma osl_type : slice pg off_pg_type 1 = Some (le_enc 1 type_meta).
  Proof. exact (old_enc_slice P m 1 _ _ HP eq_refl). Qed.
  Lemma osl_page : slice pg oo_meta_page 4 = Some (le_enc 4 (m_page m)).
  Proof. exact (old_enc_slice P m 2 _ _ HP eq_refl). Qed.
  Lemma osl_magic : slice pg oo_magic 4 = Some (le_enc 4 (m_magic m)).
  Proof. exact (old_enc_slice P m 3 _ _ HP eq_refl). Qed.
  Lemma osl_version : slice pg oo_version 4 = Some (le_enc 4 (m_version m)).
  Proof. exact (old_enc_slice P m 4 _ _ HP eq_refl). Qed.
  Lemma osl_psz : slice pg oo_pagesize 8 = Some (le_enc 8 (m_psz m)).
  Proof. exact (old_enc_slice P m 5 _ _ HP eq_refl). Qed.
  Lemma osl_root : slice pg oo_root 8 = Some (le_enc 8 (m_root m)).
  Proof. exact (old_enc_slice P m 6 _ _ HP eq_refl). Qed.
  Lemma osl_next : slice pg oo_next 8 = Some (le_enc 8 (m_next m)).
  Proof. exact (old_enc_slice P m 7 _ _ HP eq_refl). Qed.
  Lemma osl_np : slice pg oo_np 8 = Some (le_enc 8 (m_np m)).
  Proof. exact (old_enc_slice P m 8 _ _ HP eq_refl). Qed.
  Lemma osl_fl : slice pg oo_fl 8 = Some (le_enc 8 (m_fl m)).
  Proof. exact (old_enc_slice P m 9 _ _ HP eq_refl). Qed.
  Lemma osl_tx : slice pg oo_tx 8 = Some (le_enc 8 (m_tx m)).
  Proof. exact (old_enc_slice P m 10 _ _ HP eq_refl). Qed.
  Lemma osl_hash : slice pg oo_hash old_hash_len = Some (old_hash m).
  Proof.
    pose proof (old_enc_slice P m 11 _ _ HP eq_refl) as H.
    rewrite old_hash_length in H. exact H.
  Qed.
End OldSlices.

(* ------------------------------------------------------------------ *)
(** * decoding from the eleven windows *)

Lemma decode_old_slices pg st sa sb sc sd se sf sg sh si hs :
  slice pg off_pg_type 1 = Some st ->
  slice pg oo_meta_page 4 = Some sa -> slice pg oo_magic 4 = Some sb -> slice pg oo_version 4 = Some sc ->
  slice pg oo_pagesize 8 = Some sd -> slice pg oo_root 8 = Some se -> slice pg oo_next 8 = Some sf ->
  slice pg oo_np 8 = Some sg -> slice pg oo_fl 8 = Some sh -> slice pg oo_tx 8 = Some si ->
  slice pg oo_hash old_hash_len = Some hs ->
  page_type_of pg = Some (le_dec st) /\
  decode_old_meta pg =
    Some (mkMeta (le_dec sa) (le_dec sb) (le_dec sc) (le_dec sd) (le_dec se) (le_dec sf)
                 (le_dec sg) (le_dec sh) (le_dec si) 0, hs).
Proof.
  intros Ht Ha Hb Hc Hd He Hf Hg Hh Hi Hj.
  unfold page_type_of, decode_old_meta, rd_le.
  change (N.of_nat 1) with 1. change (N.of_nat 4) with 4. change (N.of_nat 8) with 8.
  rewrite Ht, Ha, Hb, Hc, Hd, He, Hf, Hg, Hh, Hi, Hj. cbn [option_map]. split; reflexivity.
Qed.

Lemma read_slot_old_decoded ct pg t m hs :
  page_type_of pg = Some t -> decode_old_meta pg = Some (m, hs) ->
  read_slot_old ct pg =
    if t =? type_meta then (if bytes_eqb (old_hash m) hs then SlotValid (with_hash m) else SlotInvalid)
    else if ct then SlotInvalid else SlotPanic.
Proof. intros Ht Hm. unfold read_slot_old. now rewrite Ht, Hm. Qed.

(* the decoded record: the fields of m, checksum field 0 *)
Definition strip (m : meta) : meta :=
  mkMeta (m_page m) (m_magic m) (m_version m) (m_psz m) (m_root m) (m_next m) (m_np m) (m_fl m) (m_tx m) 0.

Lemma old_encode_decoded P m :
  meta_wf m -> old_meta_end <= P ->
  page_type_of (encode_old_meta_page P m) = Some type_meta /\
  decode_old_meta (encode_old_meta_page P m) = Some (strip m, old_hash m).
Proof.
  intros WF HP. apply wf_wfb in WF. destruct WF.
  destruct (decode_old_slices _ _ _ _ _ _ _ _ _ _ _ _
    (osl_type P m HP) (osl_page P m HP) (osl_magic P m HP) (osl_version P m HP) (osl_psz P m HP)
    (osl_root P m HP) (osl_next P m HP) (osl_np P m HP) (osl_fl P m HP) (osl_tx P m HP) (osl_hash P m HP))
    as [Ht Hm].
  rewrite Ht, Hm, type_byte, !le_dec_enc_small by assumption.
  split; reflexivity.
Qed.

(* ------------------------------------------------------------------ *)
(** * 2. round trip *)

Theorem decode_encode_old_meta : forall P m,
  meta_wf m -> old_meta_end <= P ->
  decode_old_meta (encode_old_meta_page P m) =
    Some (mkMeta (m_page m) (m_magic m) (m_version m) (m_psz m) (m_root m) (m_next m) (m_np m) (m_fl m)
                 (m_tx m) 0, old_hash m).
Proof. intros P m WF HP. exact (proj2 (old_encode_decoded P m WF HP)). Qed.
Print Assumptions decode_encode_old_meta.

Theorem page_type_old_encode : forall P m,
  old_meta_end <= P -> page_type_of (encode_old_meta_page P m) = Some Consts.type_meta.
Proof.
  intros P m HP. unfold page_type_of, rd_le. change (N.of_nat 1) with 1.
  rewrite (osl_type P m HP). cbn [option_map]. now rewrite type_byte.
Qed.
Print Assumptions page_type_old_encode.

(* ------------------------------------------------------------------ *)
(** * the checksum ignores the checksum field *)

Lemma bytes_eqb_refl x : bytes_eqb x x = true.
Proof. induction x as [|b x IH]; cbn [bytes_eqb]; [reflexivity|]. now rewrite N.eqb_refl, IH. Qed.

Lemma bytes_eqb_eq x y : bytes_eqb x y = true <-> x = y.
Proof.
  split; [|intros ->; apply bytes_eqb_refl].
  revert y. induction x as [|a x IH]; intros [|b y]; cbn [bytes_eqb]; try discriminate; [reflexivity|].
  intros H. apply andb_true_iff in H as [H1 H2]. apply N.eqb_eq, to_N_inj in H1. apply IH in H2. congruence.
Qed.

Lemma hash_input_of_strip fs m : hash_input_of fs (strip m) = hash_input_of fs m.
Proof. reflexivity. Qed.

Lemma old_hash_strip m : old_hash (strip m) = old_hash m.
Proof. unfold old_hash. now rewrite hash_input_of_strip. Qed.

Lemma meta_hash_strip m : meta_hash (strip m) = meta_hash m.
Proof. unfold meta_hash, hash_input. now rewrite hash_input_of_strip. Qed.

Lemma with_hash_strip m : with_hash (strip m) = with_hash m.
Proof.
  unfold with_hash. rewrite meta_hash_strip. unfold strip.
  cbn [m_page m_magic m_version m_psz m_root m_next m_np m_fl m_tx]. reflexivity.
Qed.

(* ------------------------------------------------------------------ *)
(** * 3. a legacy header reads back as the converted (FNV-checksummed) header *)

Theorem read_slot_old_encode : forall ct P m,
  meta_wf m -> old_meta_end <= P ->
  read_slot_old ct (encode_old_meta_page P m) = SlotValid (with_hash m).
Proof.
  intros ct P m WF HP. destruct (old_encode_decoded P m WF HP) as [Ht Hm].
  rewrite (read_slot_old_decoded ct _ _ _ _ Ht Hm), N.eqb_refl, old_hash_strip, bytes_eqb_refl,
    with_hash_strip.
  reflexivity.
Qed.
Print Assumptions read_slot_old_encode.

(* ------------------------------------------------------------------ *)
(** * what the collision premise of 4 and 5 says: a legacy page read as a current-format header *)

Lemma slice_prefix b o n k s :
  slice b o n = Some s -> k <= n -> slice b o k = Some (firstn (N.to_nat k) s).
Proof.
  intros H Hk. apply slice_inv in H as [HL ->].
  rewrite slice_some by lia. f_equal.
  rewrite firstn_firstn. f_equal. lia.
Qed.

(* the current-format reader sees the same nine fields and takes the first 8 digest bytes for the
   checksum: the page is a valid current-format header exactly when those equal the FNV checksum *)
Definition digest_prefix (m : meta) : N := le_dec (firstn 8 (old_hash m)).

Theorem read_slot_legacy_page : forall ct P m,
  meta_wf m -> old_meta_end <= P ->
  read_slot ct (encode_old_meta_page P m) =
    if digest_prefix m =? meta_hash m
    then SlotValid (mkMeta (m_page m) (m_magic m) (m_version m) (m_psz m) (m_root m) (m_next m) (m_np m)
                           (m_fl m) (m_tx m) (digest_prefix m))
    else SlotInvalid.
Proof.
  intros ct P m WF HP. apply wf_wfb in WF. destruct WF.
  pose proof (slice_prefix _ _ _ 8 _ (osl_hash P m HP) ltac:(ooffs; lia)) as Hh.
  change (N.to_nat 8) with 8%nat in Hh.
  destruct (read_slot_slices _ _ _ _ _ _ _ _ _ _ _ _
    (osl_type P m HP) (osl_page P m HP) (osl_magic P m HP) (osl_version P m HP) (osl_psz P m HP)
    (osl_root P m HP) (osl_next P m HP) (osl_np P m HP) (osl_fl P m HP) (osl_tx P m HP) Hh)
    as [Ht Hm].
  rewrite (read_slot_decoded ct _ _ _ Ht Hm), type_byte, !le_dec_enc_small, N.eqb_refl by assumption.
  fold (digest_prefix m). unfold meta_valid. cbn [m_hash].
  replace (meta_hash (mkMeta _ _ _ _ _ _ _ _ _ (digest_prefix m))) with (meta_hash m); [reflexivity|].
  unfold meta_hash, hash_input. reflexivity.
Qed.
Print Assumptions read_slot_legacy_page.

Corollary legacy_page_invalid_iff : forall ct P m,
  meta_wf m -> old_meta_end <= P ->
  (read_slot ct (encode_old_meta_page P m) = SlotInvalid <-> digest_prefix m <> meta_hash m).
Proof.
  intros ct P m WF HP. rewrite read_slot_legacy_page by assumption.
  destruct (N.eqb_spec (digest_prefix m) (meta_hash m)); split; intros; congruence.
Qed.
Print Assumptions legacy_page_invalid_iff.

(* the premise is not vacuous: the two headers of a fresh 4096-byte-page legacy file *)
Example legacy_page_invalid_example :
  read_slot true (encode_old_meta_page 4096 (mkMeta 0 magic version 4096 3 0 4 2 0 0)) = SlotInvalid /\
  read_slot true (encode_old_meta_page 4096 (mkMeta 1 magic version 4096 3 0 4 2 0 0)) = SlotInvalid.
Proof. split; vm_compute; reflexivity. Qed.

(* ------------------------------------------------------------------ *)
(** * 4. a file with two legacy headers opens as if both had been converted *)

Lemma select_any_none ct P pg0 pg1 :
  select_slots P (read_slot ct pg0) (read_slot ct pg1) = SelNone ->
  select_any ct P pg0 pg1 = select_slots P (read_slot_old ct pg0) (read_slot_old ct pg1).
Proof. intros H. unfold select_any. now rewrite H. Qed.

Lemma select_any_found ct P pg0 pg1 :
  select_slots P (read_slot ct pg0) (read_slot ct pg1) <> SelNone ->
  select_any ct P pg0 pg1 = select_slots P (read_slot ct pg0) (read_slot ct pg1).
Proof.
  intros H. unfold select_any.
  destruct (select_slots P (read_slot ct pg0) (read_slot ct pg1)); [reflexivity|congruence|reflexivity].
Qed.

Theorem legacy_file_opens : forall ct P m0 m1,
  meta_wf m0 -> meta_wf m1 -> old_meta_end <= P -> m_psz m0 = P -> m_psz m1 = P ->
  read_slot ct (encode_old_meta_page P m0) = SlotInvalid ->
  read_slot ct (encode_old_meta_page P m1) = SlotInvalid ->
  select_any ct P (encode_old_meta_page P m0) (encode_old_meta_page P m1) =
    select_slots P (SlotValid (with_hash m0)) (SlotValid (with_hash m1)).
Proof.
  intros ct P m0 m1 WF0 WF1 HP _ _ I0 I1.
  rewrite select_any_none by (rewrite I0, I1; reflexivity).
  now rewrite !read_slot_old_encode.
Qed.
Print Assumptions legacy_file_opens.

(* with the page sizes used: the header with the larger transaction id, ties to slot 1 *)
Corollary legacy_file_opens_newest : forall ct P m0 m1,
  meta_wf m0 -> meta_wf m1 -> old_meta_end <= P -> m_psz m0 = P -> m_psz m1 = P ->
  read_slot ct (encode_old_meta_page P m0) = SlotInvalid ->
  read_slot ct (encode_old_meta_page P m1) = SlotInvalid ->
  select_any ct P (encode_old_meta_page P m0) (encode_old_meta_page P m1) =
    SelMeta (with_hash (if m_tx m1 <? m_tx m0 then m0 else m1)).
Proof.
  intros ct P m0 m1 WF0 WF1 HP P0 P1 I0 I1.
  rewrite (legacy_file_opens ct P m0 m1) by assumption.
  cbn [select_slots]. rewrite !with_hash_psz, P0, P1, N.eqb_refl. cbn [negb].
  unfold with_hash at 1 2. cbn [m_tx]. now destruct (m_tx m1 <? m_tx m0).
Qed.
Print Assumptions legacy_file_opens_newest.

(* ------------------------------------------------------------------ *)
(** * 5. a mixed file: the current-format header wins whatever the transaction ids *)

Theorem mixed_file_opens_cur_old : forall ct P m0 m1,
  meta_wf m0 -> meta_end <= P ->
  read_slot ct (encode_old_meta_page P m1) = SlotInvalid ->
  select_any ct P (encode_meta_page P (with_hash m0)) (encode_old_meta_page P m1) =
    select_slots P (SlotValid (with_hash m0)) SlotInvalid.
Proof.
  intros ct P m0 m1 WF0 HP I1.
  assert (E : select_slots P (read_slot ct (encode_meta_page P (with_hash m0)))
                (read_slot ct (encode_old_meta_page P m1)) =
              select_slots P (SlotValid (with_hash m0)) SlotInvalid).
  { now rewrite read_slot_encode, I1 by assumption. }
  rewrite select_any_found; [exact E|].
  rewrite E. cbn [select_slots]. destruct (m_psz (with_hash m0) =? P); discriminate.
Qed.
Print Assumptions mixed_file_opens_cur_old.

Theorem mixed_file_opens_old_cur : forall ct P m0 m1,
  meta_wf m1 -> meta_end <= P ->
  read_slot ct (encode_old_meta_page P m0) = SlotInvalid ->
  select_any ct P (encode_old_meta_page P m0) (encode_meta_page P (with_hash m1)) =
    select_slots P SlotInvalid (SlotValid (with_hash m1)).
Proof.
  intros ct P m0 m1 WF1 HP I0.
  assert (E : select_slots P (read_slot ct (encode_old_meta_page P m0))
                (read_slot ct (encode_meta_page P (with_hash m1))) =
              select_slots P SlotInvalid (SlotValid (with_hash m1))).
  { now rewrite read_slot_encode, I0 by assumption. }
  rewrite select_any_found; [exact E|].
  rewrite E. cbn [select_slots]. destruct (m_psz (with_hash m1) =? P); discriminate.
Qed.
Print Assumptions mixed_file_opens_old_cur.

(* with the page size used: the current-format header is selected, even when the legacy header carries
   a larger transaction id (no hypothesis relates m_tx m0 and m_tx m1) *)
Corollary mixed_file_current_wins : forall ct P m0 m1,
  meta_wf m0 -> meta_end <= P -> m_psz m0 = P ->
  read_slot ct (encode_old_meta_page P m1) = SlotInvalid ->
  select_any ct P (encode_meta_page P (with_hash m0)) (encode_old_meta_page P m1) = SelMeta (with_hash m0) /\
  select_any ct P (encode_old_meta_page P m1) (encode_meta_page P (with_hash m0)) = SelMeta (with_hash m0).
Proof.
  intros ct P m0 m1 WF0 HP P0 I1. split.
  - rewrite mixed_file_opens_cur_old by assumption.
    cbn [select_slots]. now rewrite with_hash_psz, P0, N.eqb_refl.
  - rewrite mixed_file_opens_old_cur by assumption.
    cbn [select_slots]. now rewrite with_hash_psz, P0, N.eqb_refl.
Qed.
Print Assumptions mixed_file_current_wins.

(* independent of how the pages were produced (e.g. a current-format header written over a page whose
   bytes 104..127 still hold the tail of an old digest): one slot valid in the current format, the other
   invalid in the current format => the legacy reader is never consulted *)
Theorem select_any_valid_invalid : forall ct P pg0 pg1 m,
  read_slot ct pg0 = SlotValid m -> read_slot ct pg1 = SlotInvalid ->
  select_any ct P pg0 pg1 = select_slots P (SlotValid m) SlotInvalid /\
  select_any ct P pg1 pg0 = select_slots P SlotInvalid (SlotValid m).
Proof.
  intros ct P pg0 pg1 m V I. split.
  - rewrite select_any_found; rewrite V, I; [reflexivity|].
    cbn [select_slots]. destruct (m_psz m =? P); discriminate.
  - rewrite select_any_found; rewrite V, I; [reflexivity|].
    cbn [select_slots]. destruct (m_psz m =? P); discriminate.
Qed.
Print Assumptions select_any_valid_invalid.

(* the general shape: whenever the current-format pass selects or panics, the legacy format is not consulted *)
Theorem select_any_current_first : forall ct P pg0 pg1,
  select_slots P (read_slot ct pg0) (read_slot ct pg1) <> SelNone ->
  select_any ct P pg0 pg1 = select_slots P (read_slot ct pg0) (read_slot ct pg1).
Proof. exact select_any_found. Qed.
Print Assumptions select_any_current_first.
