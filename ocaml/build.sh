#!/bin/sh
# extract the model and build the monitor. usage: build.sh
set -e
cd "$(dirname "$0")"
rm -rf extracted && mkdir -p extracted
(cd extracted && timeout 600 coqc -Q ../../coq Jamm ../../coq/extract/Extract.v > ../extract.log 2>&1) || { cat extract.log; exit 1; }
cp monitor.ml extracted/
cd extracted
# dependency order via ocamlfind ocamldep -sort
FILES=$(ocamlfind ocamldep -sort *.mli *.ml)
ocamlfind ocamlopt -O2 -w -a -o ../monitor $FILES 2>/dev/null || ocamlfind ocamlopt -w -a -o ../monitor $FILES
