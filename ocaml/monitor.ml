(* Driver around the extracted Coq model: parses history / image files, runs the extracted
   reference (Spec) and checkers, prints one canonical line per item. Part of the trusted base. *)
module L = Stdlib.List
module S = Stdlib.String
module B = Stdlib.Bytes

open BinNums

(* ---------- conversions ---------- *)
let rec pos_of_int (i : int) : positive =
  if i = 1 then Coq_xH
  else if i land 1 = 0 then Coq_xO (pos_of_int (i lsr 1))
  else Coq_xI (pos_of_int (i lsr 1))
let n_of_int (i : int) : coq_N = if i = 0 then N0 else Npos (pos_of_int i)
let rec int_of_pos (p : positive) : int =
  match p with Coq_xH -> 1 | Coq_xO q -> 2 * int_of_pos q | Coq_xI q -> 2 * int_of_pos q + 1
let int_of_n (n : coq_N) : int = match n with N0 -> 0 | Npos p -> int_of_pos p
let rec nat_of_int (i : int) : Datatypes.nat = if i <= 0 then Datatypes.O else Datatypes.S (nat_of_int (i - 1))
(* decimal printing of N beyond 62 bits: via strings of digits *)
let string_of_n (n : coq_N) : string =
  (* numbers here are < 2^64; use unsigned printing through Int64 when needed *)
  let rec to_i64 (p : positive) : Int64.t =
    match p with
    | Coq_xH -> 1L
    | Coq_xO q -> Int64.shift_left (to_i64 q) 1
    | Coq_xI q -> Int64.logor (Int64.shift_left (to_i64 q) 1) 1L in
  match n with N0 -> "0" | Npos p -> Printf.sprintf "%Lu" (to_i64 p)
let n_of_string (s : string) : coq_N =
  (* decimal, up to 2^64-1 *)
  let v = Int64.of_string ("0u" ^ s) in
  if v = 0L then N0 else begin
    let rec go (v : Int64.t) : positive =
      if v = 1L then Coq_xH
      else if Int64.logand v 1L = 0L then Coq_xO (go (Int64.shift_right_logical v 1))
      else Coq_xI (go (Int64.shift_right_logical v 1)) in
    Npos (go v)
  end

let byte_tab : Byte.byte array =
  Array.init 256 (fun i -> match Byte0.of_N (n_of_int i) with Some b -> b | None -> assert false)
let int_of_byte (b : Byte.byte) : int = int_of_n (Byte0.to_N b)

let bytes_of_string (s : string) : Byte.byte list =
  let r = ref [] in
  for i = S.length s - 1 downto 0 do r := byte_tab.(Char.code (S.get s (i))) :: !r done;
  !r
let string_of_bytes (l : Byte.byte list) : string =
  let b = Buffer.create 64 in
  L.iter (fun x -> Buffer.add_char b (Char.chr (int_of_byte x))) l;
  Buffer.contents b

let hex_of_string (s : string) : string =
  if s = "" then "-" else begin
    let b = Buffer.create (2 * S.length s) in
    S.iter (fun c -> Buffer.add_string b (Printf.sprintf "%02x" (Char.code c))) s;
    Buffer.contents b
  end
let hex (l : Byte.byte list) : string = hex_of_string (string_of_bytes l)

(* token -> raw string; same conventions as the Rust harness *)
let rec unhex1 (t : string) : string =
  if t = "-" || t = "" then ""
  else if (S.get t 0) = 'r' then begin
    match S.split_on_char ':' (S.sub t 1 (S.length t - 1)) with
    | [len; seed] ->
        let len = int_of_string len and seed = int_of_string seed in
        S.init len (fun i -> Char.chr ((seed + i * 31 + (i lsr 8) * 17) land 0xff))
    | _ -> failwith ("bad token " ^ t)
  end else if (S.get t 0) = 'p' then begin
    match S.split_on_char ':' (S.sub t 1 (S.length t - 1)) with
    | [len; pre] ->
        let len = int_of_string len and pre = unhex1 pre in
        if S.length pre >= len then pre else pre ^ S.make (len - S.length pre) 'x'
    | _ -> failwith ("bad token " ^ t)
  end else
    S.init (S.length t / 2) (fun i -> Char.chr (int_of_string ("0x" ^ S.sub t (2 * i) 2)))
let unhex (t : string) : string = S.concat "" (L.map unhex1 (S.split_on_char '+' t))
let tok (t : string) : Byte.byte list = bytes_of_string (unhex t)

let rec string_of_coq (s : String.string) : string =
  match s with
  | String.EmptyString -> ""
  | String.String (Ascii.Ascii (b0, b1, b2, b3, b4, b5, b6, b7), r) ->
      let bit b i = if b then 1 lsl i else 0 in
      S.make 1 (Char.chr (bit b0 0 + bit b1 1 + bit b2 2 + bit b3 3 + bit b4 4 + bit b5 5 + bit b6 6 + bit b7 7))
      ^ string_of_coq r

(* ---------- Spec runner ---------- *)
let fmt_item (i : Spec.item) : string =
  match i with
  | Spec.IKv (k, v) -> "kv:" ^ hex k ^ ":" ^ hex v
  | Spec.IBk k -> "bk:" ^ hex k
let fmt_items (l : Spec.item list) : string = S.concat "" (L.map (fun i -> " " ^ fmt_item i) l)
let rec fmt_dump (d : Spec.dump) : string =
  match d with
  | Spec.DKv (k, v) -> "(kv " ^ hex k ^ " " ^ hex v ^ ")"
  | Spec.DBk (k, nx, sub) -> "(bk " ^ hex k ^ " " ^ string_of_n nx ^ " " ^ S.concat "" (L.map fmt_dump sub) ^ ")"
let err_name (e : Spec.rerr) : string =
  match e with
  | Spec.BucketExists -> "err:BucketExists" | Spec.BucketMissing -> "err:BucketMissing"
  | Spec.KeyValueMissing -> "err:KeyValueMissing" | Spec.IncompatibleValue -> "err:IncompatibleValue"
  | Spec.ReadOnlyTx -> "err:ReadOnlyTx"
(* a result may have several admissible renderings (seek on an absent key) *)
let fmt_result (r : Spec.result) : string list =
  match r with
  | Spec.ROk -> ["ok"]
  | Spec.RErr e -> [err_name e]
  | Spec.RPanicDeleted -> ["panic:deleted"]
  | Spec.ROrphan -> ["orphan"]
  | Spec.RBadOp -> ["badop"]
  | Spec.ROpt None -> ["opt:none"]
  | Spec.ROpt (Some i) -> ["opt:" ^ fmt_item i]
  | Spec.RItems l -> ["items:" ^ fmt_items l]
  | Spec.RSeek (f, a, b) ->
      let p = "seek:" ^ (if f then "1" else "0") ^ ":" in
      let x = p ^ fmt_items a and y = p ^ fmt_items b in
      if x = y then [x] else [x; y]
  | Spec.RNum n -> ["num:" ^ string_of_n n]
  | Spec.RDump (_, d) -> ["dump:" ^ S.concat "" (L.map fmt_dump d)]

let bound_of (kind : string) (k : string) : Spec.bound =
  match kind with "I" -> Spec.BIncl (tok k) | "E" -> Spec.BExcl (tok k) | _ -> Spec.BUnb

let num (s : string) : coq_N = n_of_string s

(* parse one history line into a Spec command; None for harness-only commands and comments *)
let parse_cmd (line : string) : Spec.cmd option =
  let w = L.filter (fun x -> x <> "") (S.split_on_char ' ' (S.trim line)) in
  match w with
  | [] -> None
  | c :: _ when (S.get c (0)) = '#' -> None
  | ["begin"; t; m] -> Some (Spec.CBegin (num t, m = "w"))
  | ["commit"; t] -> Some (Spec.CCommit (num t))
  | ["drop"; t] -> Some (Spec.CDrop (num t))
  | ["reopen"] -> Some Spec.CReopen
  | ["create"; t; h; nm; nh] -> Some (Spec.COp (num t, Spec.OCreate (num h, tok nm, num nh)))
  | ["getb"; t; h; nm; nh] | ["getbi"; t; h; nm; nh] -> Some (Spec.COp (num t, Spec.OGetB (num h, tok nm, num nh)))
  | ["goc"; t; h; nm; nh] -> Some (Spec.COp (num t, Spec.OGoc (num h, tok nm, num nh)))
  | ["delb"; t; h; nm] -> Some (Spec.COp (num t, Spec.ODelB (num h, tok nm)))
  | ["put"; t; h; k; v] -> Some (Spec.COp (num t, Spec.OPut (num h, tok k, tok v)))
  | ["get"; t; h; k] -> Some (Spec.COp (num t, Spec.OGet (num h, tok k)))
  | ["getkv"; t; h; k] -> Some (Spec.COp (num t, Spec.OGetKv (num h, tok k)))
  | ["del"; t; h; k] -> Some (Spec.COp (num t, Spec.ODel (num h, tok k)))
  | ["nextint"; t; h] -> Some (Spec.COp (num t, Spec.ONextInt (num h)))
  | ["scan"; t; h] -> Some (Spec.COp (num t, Spec.OScan (num h)))
  | ["seek"; t; h; k] | ["seek"; t; h; k; _] -> Some (Spec.COp (num t, Spec.OSeek (num h, tok k)))
  | ["range"; t; h; lk; lo; hk; hi] -> Some (Spec.COp (num t, Spec.ORange (num h, bound_of lk lo, bound_of hk hi)))
  | ["buckets"; t; h] -> Some (Spec.COp (num t, Spec.OBuckets (num h)))
  | ["kvpairs"; t; h] -> Some (Spec.COp (num t, Spec.OKvPairs (num h)))
  | ["dump"; t] -> Some (Spec.COp (num t, Spec.ODump))
  | _ -> None

let read_lines (path : string) : string list =
  let ic = open_in path in
  let r = ref [] in
  (try while true do r := input_line ic :: !r done with End_of_file -> ());
  close_in ic;
  L.rev !r

(* spec <history> <filtered-out> <expected-out>:
   runs the reference; commands whose reference result is "orphan"/"badop" are dropped from the
   filtered history (they are outside the property's quantifier); harness-only lines are kept and get
   the expectation "*" (compared by other oracles). Alternatives are separated by " || ". *)
let cmd_spec (hist : string) (fout : string) (eout : string) : unit =
  let fo = open_out fout and eo = open_out eout in
  let st = ref Spec.init_sdb in
  L.iter (fun line ->
    let t = S.trim line in
    if t = "" || (S.get t (0)) = '#' then ()
    else match parse_cmd line with
      | None ->
          output_string fo (line ^ "\n");
          if t = "snap" then begin
            (* what an independent decoder must find in the file right now: the committed state *)
            let c = (!st).Spec.d_committed in
            output_string eo ("snap= rootnext=" ^ string_of_n (Spec.b_next c) ^ " dump:"
                              ^ S.concat "" (L.map fmt_dump (Spec.dump_of c)) ^ "\n")
          end else output_string eo "*\n"
      | Some c ->
          let (st', r) = Spec.step !st c in
          (match r with
           | Spec.ROrphan | Spec.RBadOp -> ()
           | _ ->
               st := st';
               output_string fo (line ^ "\n");
               output_string eo (S.concat " || " (fmt_result r) ^ "\n")))
    (read_lines hist);
  close_out fo; close_out eo

(* ---------- header images (C12) ---------- *)
let read_file (path : string) : string =
  let ic = open_in_bin path in
  let n = in_channel_length ic in
  let s = really_input_string ic n in
  close_in ic; s

let fmt_sel (s : Meta.sel) : string =
  match s with
  | Meta.SelPanic why -> "panic:" ^ string_of_coq why
  | Meta.SelNone -> "none"
  | Meta.SelMeta m ->
      Printf.sprintf "meta:slot=%s,tx=%s,root=%s,next=%s,np=%s,fl=%s"
        (string_of_n m.Meta.m_page) (string_of_n m.Meta.m_tx) (string_of_n m.Meta.m_root)
        (string_of_n m.Meta.m_next) (string_of_n m.Meta.m_np) (string_of_n m.Meta.m_fl)

(* select <pagesize> <file>...: which header does the model's open pick *)
let cmd_select_impl : (int -> string -> Meta.sel) ref = ref (fun _ _ -> Meta.SelNone)
let cmd_select (ps : int) (files : string list) : unit =
  L.iter (fun f -> Printf.printf "%s %s\n" f (fmt_sel (!cmd_select_impl ps f))) files

let reader_of_string (s : string) : Codec.reader =
  fun off len ->
    let o = int_of_n off and l = int_of_n len in
    if o + l <= S.length s then Some (bytes_of_string (S.sub s o l)) else None

let () = cmd_select_impl := (fun ps f -> Tree.open_meta (reader_of_string (read_file f)) (n_of_int ps))

let fmt_res (f : 'a -> string) (r : 'a Codec.res) : string =
  match r with Codec.Ok a -> f a | Codec.Bad m -> "bad:" ^ S.map (fun c -> if c = ' ' then '_' else c) (string_of_coq m)

let fmt_ids (l : coq_N list) : string = S.concat "," (L.map string_of_n l)

(* inv <pagesize> <file>...: for every file print
   <file> inv:<ok|bad:msg> meta:<...> free:<ids> dump:<...> *)
let cmd_inv (ps : int) (files : string list) : unit =
  L.iter (fun f ->
    let s = read_file f in
    let rd = reader_of_string s in
    let p = n_of_int ps in
    let inv = fmt_res (fun _ -> "ok") (Tree.inv_check rd p) in
    let o = Tree.open_db rd p in
    let meta = fmt_res (fun o -> fmt_sel (Meta.SelMeta o.Tree.o_meta) ^ " free:" ^ fmt_ids o.Tree.o_free
                                 ^ " flrun:" ^ fmt_ids o.Tree.o_flrun) o in
    let dump = fmt_res (fun (nx, d) -> "rootnext=" ^ string_of_n nx ^ " dump:" ^ S.concat "" (L.map fmt_dump d)) (Tree.logical rd p) in
    let reach = match o with
      | Codec.Ok o -> fmt_res fmt_ids (Tree.bucket_pages (nat_of_int (int_of_n o.Tree.o_meta.Meta.m_np)) rd p o.Tree.o_meta.Meta.m_np o.Tree.o_meta.Meta.m_root)
      | Codec.Bad _ -> "-" in
    let chk = fmt_res (fun _ -> "ok") (CheckM.check_m rd p) in
    Printf.printf "%s inv:%s checkm:%s %s reach:%s %s\n" f inv chk meta reach dump) files

(* ---------- cursor model on a real file (C08 / C07 correspondence) ---------- *)
let rec find_bucket (rd : Codec.reader) (p : coq_N) (np : coq_N) (root : coq_N) (path : string list) : Tree.tree Codec.res =
  match Tree.build_tree (nat_of_int (int_of_n np)) rd p root with
  | Codec.Bad m -> Codec.Bad m
  | Codec.Ok t ->
      (match path with
       | [] -> Codec.Ok t
       | nm :: rest ->
           let name = tok nm in
           let rec look (l : Codec.lent list) =
             match l with
             | [] -> Codec.Bad String.EmptyString
             | Codec.EBk (k, r, _) :: l' -> if Bytes.beq k name then find_bucket rd p np r rest else look l'
             | _ :: l' -> look l' in
           look (Tree.flatten t))

let fmt_cur (r : Spec.item list Cursor.cur_res) : string =
  match r with Cursor.CPanic -> " PANIC" | Cursor.CVal l -> fmt_items l

(* cursor <pagesize> <file> <ops>: ops are `scan P`, `seek P k`, `range P lk lo hk hi`, `get P k`,
   `buckets P`, `kvpairs P` with P = bucket path (names joined by '/') *)
let cmd_cursor (ps : int) (file : string) (ops : string) : unit =
  let s = read_file file in
  let rd = reader_of_string s in
  let p = n_of_int ps in
  match Tree.open_db rd p with
  | Codec.Bad m -> print_endline ("open:bad:" ^ string_of_coq m)
  | Codec.Ok o ->
      let m = o.Tree.o_meta in
      L.iter (fun line ->
        let w = L.filter (fun x -> x <> "") (S.split_on_char ' ' (S.trim line)) in
        match w with
        | [] -> ()
        | op :: path :: args ->
            let path = L.filter (fun x -> x <> "") (S.split_on_char '/' path) in
            (match find_bucket rd p m.Meta.m_np m.Meta.m_root path with
             | Codec.Bad _ -> print_endline "nobucket"
             | Codec.Ok t ->
                 (match op, args with
                  | "scan", [] -> print_endline ("items:" ^ fmt_cur (Cursor.scan t))
                  | "buckets", [] ->
                      (match Cursor.scan t with
                       | Cursor.CPanic -> print_endline "items: PANIC"
                       | Cursor.CVal l -> print_endline ("items:" ^ fmt_items (L.filter (fun i -> match i with Spec.IBk _ -> true | _ -> false) l)))
                  | "kvpairs", [] ->
                      (match Cursor.scan t with
                       | Cursor.CPanic -> print_endline "items: PANIC"
                       | Cursor.CVal l -> print_endline ("items:" ^ fmt_items (L.filter (fun i -> match i with Spec.IKv _ -> true | _ -> false) l)))
                  | "seek", [k] | "seek", [k; _] ->
                      let (ex, r) = Cursor.seek_scan t (tok k) in
                      print_endline ("seek:" ^ (if ex then "1" else "0") ^ ":" ^ fmt_cur r)
                  | "range", [lk; lo; hk; hi] ->
                      print_endline ("items:" ^ fmt_cur (Cursor.range_scan t (bound_of lk lo) (bound_of hk hi)))
                  | "get", [k] ->
                      print_endline (match Cursor.get t (tok k) with None -> "opt:none" | Some i -> "opt:" ^ fmt_item i)
                  | _ -> print_endline "badop"))
        | _ -> print_endline "badop") (read_lines ops)

(* ---------- page-lifecycle acceptor + free-list replay over hook events (C03/C05/C06/C10) ---------- *)
let ints (ws : string list) : coq_N list = L.map num ws
(* dump: n_free free... n_pend (tx cnt pages...)... *)
let parse_dump (ws : string list) : coq_N list * (coq_N * coq_N list) list =
  let a = Array.of_list ws in
  let pos = ref 0 in
  let nxt () = let v = a.(!pos) in incr pos; v in
  let nf = int_of_string (nxt ()) in
  let free = L.init nf (fun _ -> num (nxt ())) in
  let np = int_of_string (nxt ()) in
  let pend = L.init np (fun _ ->
    let t = num (nxt ()) in
    let c = int_of_string (nxt ()) in
    (t, L.init c (fun _ -> num (nxt ())))) in
  (free, pend)

let split_bar (ws : string list) : string list * string list =
  let rec go acc l = match l with [] -> (L.rev acc, []) | "|" :: r -> (L.rev acc, r) | x :: r -> go (x :: acc) r in
  go [] ws

let eq_nlist (a : coq_N list) (b : coq_N list) : bool = L.map string_of_n a = L.map string_of_n b
let eq_pend a b = L.length a = L.length b && L.for_all2 (fun (t, ps) (u, qs) -> string_of_n t = string_of_n u && eq_nlist ps qs) a b
let fmt_pend p = S.concat ";" (L.map (fun (t, ps) -> string_of_n t ^ ":" ^ fmt_ids ps) p)

let cmd_pl (ps : int) (evfile : string) : unit =
  let p = n_of_int ps in
  let st = ref PL.init_pl in
  let shared = ref { Freelist.fl_free = []; Freelist.fl_pending = [] } in
  let wtx : Freelist.txfl option ref = ref None in
  let written : coq_N list ref = ref [] in
  let pending_publish = ref None in
  let last_tx = ref N0 and last_np = ref (n_of_int 4) in
  let pl_lost = ref false in       (* a commit without a snapshot: the acceptor cannot follow any further *)
  let n = ref 0 in
  let reject why = Printf.printf "REJECT event=%d %s\n" !n why in
  let pl_step (e : PL.event) (what : string) =
    if !pending_publish <> None then pl_lost := true;
    if !pl_lost then () else
    match PL.accept !st e with
    | Some s' -> st := s'
    | None -> reject ("page-lifecycle machine does not accept " ^ what) in
  L.iter (fun line ->
    incr n;
    let w = L.filter (fun x -> x <> "") (S.split_on_char ' ' (S.trim line)) in
    match w with
    | [] -> ()
    | "B" :: mode :: txid :: rest ->
        let (hd, dump) = split_bar rest in
        let readers = ints hd in
        let (free, pend) = parse_dump dump in
        if mode = "r" then pl_step PL.EBeginR "reader begin"
        else begin
          (* free-list replay: begin_writer on the model's shared list must give what the library has *)
          let rds = (match readers with [] -> [] | _ -> readers) in
          let tf = Freelist.begin_writer !shared !last_np !last_tx p rds in
          if not (eq_nlist tf.Freelist.tf_inner.Freelist.fl_free free && eq_pend tf.Freelist.tf_inner.Freelist.fl_pending pend) then
            reject (Printf.sprintf "writer begin tx=%s: model free=[%s] pend=[%s] library free=[%s] pend=[%s]" txid
                      (fmt_ids tf.Freelist.tf_inner.Freelist.fl_free) (fmt_pend tf.Freelist.tf_inner.Freelist.fl_pending)
                      (fmt_ids free) (fmt_pend pend));
          if string_of_n tf.Freelist.tf_tx <> txid then reject ("writer tx id: model " ^ string_of_n tf.Freelist.tf_tx ^ " library " ^ txid);
          wtx := Some { tf with Freelist.tf_inner = { Freelist.fl_free = free; Freelist.fl_pending = pend } };
          written := [];
          pl_step (PL.EBeginW (free, pend)) "writer begin (released free list)"
        end
    | ["A"; bytes; np_; pg] ->
        (match !wtx with
         | None -> reject "alloc outside a write transaction"
         | Some tf ->
             let ((pg', n'), tf') = Freelist.tx_allocate tf (num bytes) in
             if string_of_n pg' <> pg || string_of_n n' <> np_ then
               reject (Printf.sprintf "allocate(%s bytes): model page=%s n=%s library page=%s n=%s" bytes (string_of_n pg') (string_of_n n') pg np_);
             wtx := Some tf')
    | ["F"; pg; cnt] ->
        (match !wtx with
         | None -> reject "free outside a write transaction"
         | Some tf -> wtx := Some (Freelist.tx_free tf (num pg) (num cnt)))
    | ["W"; pg; size] ->
        let np_ = (int_of_string size + ps - 1) / ps in
        written := !written @ L.init np_ (fun i -> n_of_int (int_of_string pg + i))
    | "P" :: txid :: npv :: _flp :: _root :: rest ->
        let (_, dump) = split_bar rest in
        let (free, pend) = parse_dump dump in
        (match !wtx with
         | None -> reject "publish outside a write transaction"
         | Some tf ->
             if not (eq_nlist tf.Freelist.tf_inner.Freelist.fl_free free && eq_pend tf.Freelist.tf_inner.Freelist.fl_pending pend) then
               reject (Printf.sprintf "publish tx=%s: model free=[%s] pend=[%s] library free=[%s] pend=[%s]" txid
                         (fmt_ids tf.Freelist.tf_inner.Freelist.fl_free) (fmt_pend tf.Freelist.tf_inner.Freelist.fl_pending)
                         (fmt_ids free) (fmt_pend pend));
             if string_of_n tf.Freelist.tf_np <> npv then reject ("num_pages: model " ^ string_of_n tf.Freelist.tf_np ^ " library " ^ npv);
             shared := { Freelist.fl_free = free; Freelist.fl_pending = pend };
             last_tx := num txid; last_np := num npv;
             pending_publish := Some (free, pend);
             wtx := None)
    | ["S"; file] ->
        (* snapshot taken after a commit: decode live set, high-water mark, tx id from the file *)
        (match !pending_publish with
         | None -> ()
         | Some (free, pend) ->
             pending_publish := None;
             let s = read_file file in
             let rd = reader_of_string s in
             (match Tree.open_db rd p with
              | Codec.Bad m -> reject ("snapshot does not open: " ^ string_of_coq m)
              | Codec.Ok o ->
                  let m = o.Tree.o_meta in
                  (match Tree.bucket_pages (nat_of_int (int_of_n m.Meta.m_np)) rd p m.Meta.m_np m.Meta.m_root with
                   | Codec.Bad msg -> reject ("snapshot tree: " ^ string_of_coq msg)
                   | Codec.Ok reach ->
                       let live' = reach @ o.Tree.o_flrun in
                       (* the free-list page must list exactly free + pending of the published list *)
                       let want = Freelist.fl_pages { Freelist.fl_free = free; Freelist.fl_pending = pend } in
                       if not (eq_nlist want o.Tree.o_free) then
                         reject (Printf.sprintf "free-list page: model [%s] file [%s]" (fmt_ids want) (fmt_ids o.Tree.o_free));
                       pl_step (PL.ECommit (!written, free, pend, live', m.Meta.m_np, m.Meta.m_tx)) "commit (contract c1-c8)")))
    | ["X"] -> wtx := None; pl_step PL.ERollback "rollback"
    | "E" :: txid :: _ -> pl_step (PL.EEndR (num txid)) ("reader end " ^ txid)
    | "R" :: file :: _ ->
        let s = read_file file in
        let rd = reader_of_string s in
        (match Tree.open_db rd p with
         | Codec.Bad m -> reject ("reopen: file does not open: " ^ string_of_coq m)
         | Codec.Ok o ->
             shared := Freelist.fl_init o.Tree.o_free;
             last_tx := o.Tree.o_meta.Meta.m_tx; last_np := o.Tree.o_meta.Meta.m_np;
             wtx := None;
             pl_step (PL.EReopen (!shared).Freelist.fl_free) "reopen (free list = free + pending)")
    | _ -> reject ("unparsed event: " ^ line)) (read_lines evfile);
  let s = !st in
  Printf.printf "done lost=%b events=%d np=%s tx=%s live=%d free=%d pend=%d readers=%d\n" !pl_lost !n (string_of_n s.PL.np) (string_of_n s.PL.tx)
    (L.length s.PL.live) (L.length s.PL.free) (L.length (L.concat (L.map snd s.PL.pend))) (L.length s.PL.readers)

(* ---------- header damage (C12): the model's open on mutated images ---------- *)
let fnv64_string (s : string) : string =
  let h = ref 0xcbf29ce484222325L in
  S.iter (fun c -> h := Int64.mul (Int64.logxor !h (Int64.of_int (Char.code c))) 0x100000001b3L) s;
  Printf.sprintf "%016Lx" !h

(* damage <pagesize> <image> <mutfile>: per mutation line print "<n> ok <dump hash> inv:<..>" or "<n> <failure>" *)
let cmd_damage (ps : int) (image : string) (mutfile : string) : unit =
  let base = read_file image in
  let p = n_of_int ps in
  L.iteri (fun i line ->
    match L.filter (fun x -> x <> "") (S.split_on_char ' ' (S.trim line)) with
    | (_ :: _ :: _) as ws ->
        let rec pairs l = match l with o :: h :: r -> (int_of_string o, unhex h) :: pairs r | _ -> [] in
        let ps = pairs ws in
        let need = L.fold_left (fun m (o, b) -> max m (o + S.length b)) (S.length base) ps in
        let img = B.make need '\000' in
        B.blit_string base 0 img 0 (S.length base);
        L.iter (fun (o, b) -> B.blit_string b 0 img o (S.length b)) ps;
        let rd = reader_of_string (B.to_string img) in
        (match Tree.open_meta rd p with
         | Meta.SelPanic why -> Printf.printf "%d open:panic:%s\n" i (string_of_coq why)
         | Meta.SelNone -> Printf.printf "%d open:panic:no-valid-header\n" i
         | Meta.SelMeta _ ->
             (match Tree.logical rd p with
              | Codec.Bad m -> Printf.printf "%d bad:%s\n" i (string_of_coq m)
              | Codec.Ok (_, d) ->
                  let dump = "dump:" ^ S.concat "" (L.map fmt_dump d) in
                  let inv = fmt_res (fun _ -> "ok") (Tree.inv_check rd p) in
                  Printf.printf "%d ok %s check:%s\n" i (fnv64_string dump) inv))
    | _ -> ()) (read_lines mutfile)

(* ---------- thread-level transition system vs the scheduled library run (C04 / C09) ---------- *)
let rec int_of_nat (n : Datatypes.nat) : int = match n with Datatypes.O -> 0 | Datatypes.S m -> 1 + int_of_nat m

let yield_of_pc (p : Conc.pc) : string =
  match p with
  | Conc.RLocked | Conc.WLocked -> "begin:after_lock"
  | Conc.RFl | Conc.WFl -> "begin:after_freelist"
  | Conc.RHdr | Conc.WHdr -> "begin:after_meta"
  | Conc.RReg | Conc.WReg -> "begin:after_register"
  | Conc.RMid -> "client:mid" | Conc.REnd -> "client:end"
  | Conc.CGrow1 -> "resize:before_wlock" | Conc.CGrow2 -> "resize:after_wlock" | Conc.CGrow3 -> "resize:after_remap"
  | Conc.CData -> "commit:before_data" | Conc.CHeaderNext -> "commit:before_header" | Conc.CSyncNext -> "commit:before_sync"
  | Conc.CPublishNext -> "commit:before_publish" | Conc.CPublished -> "commit:after_publish"
  | Conc.RStart | Conc.WStart -> "start" | Conc.RDone | Conc.WDone -> "done"

let cmd_conc (file : string) : unit =
  let lines = read_lines file in
  let atomic = ref true and yields = ref ["client:mid"; "client:end"] and kinds = ref [] and inits = ref 0 in
  L.iter (fun l ->
    match L.filter (fun x -> x <> "") (S.split_on_char ' ' (S.trim l)) with
    | ["atomic"; v] -> atomic := (v = "1")
    | "yield" :: ys -> yields := ys @ !yields
    | ["thread"; k] -> kinds := !kinds @ [k]
    | "init" :: "writer" :: "committed" :: _ -> incr inits
    | _ -> ()) lines;
  let ths = L.map (fun k -> if k = "r" then Conc.reader0 else Conc.writer0 false) !kinds in
  let st = ref (Conc.init (nat_of_int !inits) ths) in
  let nsteps = ref 0 in
  let stop = ref false in
  let mismatch msg = if not !stop then (Printf.printf "MISMATCH %s\n" msg; stop := true) in
  let thread_of i = L.nth (!st).Conc.threads i in
  let set_thread i t =
    st := { !st with Conc.threads = L.mapi (fun j x -> if j = i then t else x) (!st).Conc.threads } in
  (* advance thread i to its next yield point in the yield set *)
  let advance (i : int) (observed : string) : string =
    let rec go first =
      let t = thread_of i in
      (* a writer's commit grows the file iff the library says so: resolved by observation *)
      if t.Conc.t_pc = Conc.WReg && not t.Conc.t_grows && S.length observed >= 7 && S.sub observed 0 7 = "resize:" then
        set_thread i { t with Conc.t_grows = true };
      match Conc.step !atomic !st (nat_of_int i) with
      | None -> if Conc.finished (thread_of i).Conc.t_pc then "done" else "blocked"
      | Some s' ->
          st := s';
          let p = (thread_of i).Conc.t_pc in
          if Conc.finished p then "done"
          else if L.mem (yield_of_pc p) !yields then yield_of_pc p
          else go false in
    go true in
  let writer_waiting () = L.exists (fun t -> t.Conc.t_pc = Conc.CGrow1) (!st).Conc.threads in
  (* threads seen blocked inside the library run on by themselves once the lock is released; until the
     controller polls them again the lock bits cannot be compared *)
  let blocked : int list ref = ref [] in
  L.iter (fun l ->
    if !stop then () else
    let w = L.filter (fun x -> x <> "") (S.split_on_char ' ' (S.trim l)) in
    match w with
    | "step" :: _ :: kind :: ti :: rest when kind = "grant" || kind = "poll" ->
        incr nsteps;
        let i = int_of_string ti in
        let rec after_arrow l = match l with "->" :: x :: r -> (x, r) | _ :: r -> after_arrow r | [] -> ("", []) in
        let (obs, tail) = after_arrow rest in
        if obs = "already-done" then () else begin
          let obs_name = match S.index_opt obs '[' with Some k -> S.sub obs 0 k | None -> obs in
          let obs_nums = match S.index_opt obs '[' with
            | Some k -> L.filter (fun x -> x <> "") (S.split_on_char ',' (S.sub obs (k + 1) (S.length obs - k - 2)))
            | None -> [] in
          (* a thread that was blocked inside the library has run on by itself to its next yield point
             (the `from` of this grant): let the model catch up first *)
          (match rest with
           | "from" :: fr :: _ ->
               let fr_name = match S.index_opt fr '[' with Some k -> S.sub fr 0 k | None -> fr in
               if L.mem i !blocked && yield_of_pc (thread_of i).Conc.t_pc <> fr_name then begin
                 let m0 = advance i fr_name in
                 if m0 <> fr_name then mismatch (Printf.sprintf "line `%s`: catching up thread %d to `%s`, model reaches `%s`" l i fr_name m0)
               end
           | _ -> ());
          let saved = !st in
          let pc_before = (thread_of i).Conc.t_pc in
          let m = advance i obs_name in
          blocked := L.filter (fun x -> x <> i) !blocked;
          if obs_name = "blocked" then blocked := i :: !blocked;
          if m <> obs_name then begin
            (* fairness of the RwLock is not modelled: a reader may be kept out while a writer waits for the write lock *)
            if obs_name = "blocked" && pc_before = Conc.RStart && (st := saved; writer_waiting ()) then ()
            else if obs_name = "blocked" && pc_before = Conc.WStart
                    && L.exists (fun j -> j <> i && (L.nth saved.Conc.threads j).Conc.t_pc = Conc.WStart) !blocked then begin
              (* several writers were waiting for the writer mutex: another blocked one got it *)
              st := saved;
              let j = L.find (fun j -> j <> i && (thread_of j).Conc.t_pc = Conc.WStart) !blocked in
              ignore (advance j "begin:after_lock");
              blocked := i :: !blocked;
              (match Conc.step !atomic !st (nat_of_int i) with
               | None -> ()
               | Some _ -> mismatch (Printf.sprintf "line `%s`: model says thread %d is enabled" l i))
            end
            else if obs_name = "blocked" && pc_before = Conc.CGrow1
                    && L.exists (fun j -> j <> i && (L.nth saved.Conc.threads j).Conc.t_pc = Conc.RStart) !blocked then begin
              (* the writer waits for the mmap write lock and readers wait behind it; when the lock is released the RwLock
                 may admit the waiting readers before the waiting writer (both are schedules of the model: a reader at RStart
                 is enabled whenever no writer HOLDS the lock). The readers run on by themselves; they stay in `blocked` and
                 are caught up when the controller sees them again. *)
              st := saved;
              L.iter (fun j ->
                if j <> i && (thread_of j).Conc.t_pc = Conc.RStart then
                  (match Conc.step !atomic !st (nat_of_int j) with Some s' -> st := s' | None -> ())) !blocked;
              blocked := i :: !blocked;
              (match Conc.step !atomic !st (nat_of_int i) with
               | None -> ()
               | Some _ -> mismatch (Printf.sprintf "line `%s`: model says thread %d is enabled" l i))
            end
            else mismatch (Printf.sprintf "line `%s`: model says thread %d reaches `%s`" l i m)
          end else begin
            let t = thread_of i in
            let hdr = int_of_nat t.Conc.t_hdr in
            (match obs_name, obs_nums with
             | "begin:after_register", [_; tx] ->
                 let want = if t.Conc.t_writer then hdr + 1 else hdr in
                 if int_of_string tx <> want then mismatch (Printf.sprintf "line `%s`: model tx id %d" l want)
             | "commit:before_header", [tx; _] ->
                 if int_of_string tx <> hdr + 1 then mismatch (Printf.sprintf "line `%s`: model commits tx %d" l (hdr + 1))
             | _ -> ());
            (match tail with
             | lk :: _ when S.length lk > 8 && S.sub lk 0 6 = "locks=" && !blocked = [] ->
                 let bits = S.sub lk 6 (S.length lk - 6) in
                 let file_free = (!st).Conc.fileM = None in
                 let wr_avail = (!st).Conc.rd = [] && (!st).Conc.wr = None in
                 if (S.get bits 0 = '1') <> file_free then mismatch (Printf.sprintf "line `%s`: model writer mutex %s" l (if file_free then "free" else "held"));
                 if (S.get bits 1 = '1') <> wr_avail then mismatch (Printf.sprintf "line `%s`: model mmap write lock %s" l (if wr_avail then "available" else "unavailable"))
             | _ -> ())
          end
        end
    | "event" :: _ :: name :: payload :: _ when name = "tx_begin" || name = "tx_end_ro" ->
        let nums = L.map int_of_string (L.filter (fun x -> x <> "") (S.split_on_char ',' payload)) in
        let ro = (match name, nums with
                  | "tx_begin", (_ :: _ :: n :: r) -> L.filteri (fun k _ -> k < n) r
                  | "tx_end_ro", (_ :: n :: r) -> L.filteri (fun k _ -> k < n) r
                  | _ -> []) in
        let model = L.sort compare (L.map int_of_nat (!st).Conc.readers) in
        if L.sort compare ro <> model then
          mismatch (Printf.sprintf "line `%s`: registered readers in the model: [%s]" l (S.concat "," (L.map string_of_int model)))
    | _ -> ()) lines;
  Printf.printf "done steps=%d snapshots_ok=%b\n" !nsteps (Conc.snapshots_okb !st)

(* api: the verdict of the lifetime-flow check for every row of the generated signature table *)
let cmd_api () : unit =
  L.iter (fun f ->
    let owner = string_of_coq f.ApiSig.f_owner and tr = string_of_coq f.ApiSig.f_trait and name = string_of_coq f.ApiSig.f_name in
    let sens_out = ApiFlow.sens_in f && L.exists (fun c ->
      let t = string_of_coq c.ApiSig.c_ty in ApiFlow.is_anchor_ty c.ApiSig.c_ty || t = "Bytes" || t = "&") f.ApiSig.f_out in
    Printf.printf "%s|%s|%s|%d|%d|%s\n" owner tr name (if ApiFlow.anchoredb f then 1 else 0) (if sens_out then 1 else 0)
      (string_of_coq f.ApiSig.f_body)) ApiSig.api;
  Printf.printf "none_send=%b db_shareable=%b\n" ApiFlow.none_send ApiFlow.db_shareable

(* ---------- the write-path engine model, page for page against the library's files ---------- *)
let fmt_engine_body (d : Engine.ndata) : string =
  match d with
  | Engine.Leaves l -> "L " ^ S.concat " " (L.map (fun e -> match e with
      | Engine.LKv (k, v) -> "kv:" ^ hex k ^ ":" ^ hex v
      | Engine.LBk (k, r, n) -> "bk:" ^ hex k ^ ":" ^ string_of_n r ^ ":" ^ string_of_n n) l)
  | Engine.Branches es -> "B " ^ S.concat " " (L.map (fun (k, p) -> hex k ^ ">" ^ string_of_n p) es)
let fmt_codec_body (b : Codec.pbody) : string =
  match b with
  | Codec.PLeaf l -> "L " ^ S.concat " " (L.map (fun e -> match e with
      | Codec.EKv (k, v) -> "kv:" ^ hex k ^ ":" ^ hex v
      | Codec.EBk (k, r, n) -> "bk:" ^ hex k ^ ":" ^ string_of_n r ^ ":" ^ string_of_n n) l)
  | Codec.PBranch es -> "B " ^ S.concat " " (L.map (fun (k, p) -> hex k ^ ">" ^ string_of_n p) es)
  | Codec.PFree ids -> "F " ^ fmt_ids ids

(* canonical page listing of the tree reachable from root (nested buckets included), from the model *)
let rec engine_pages (st : Engine.db) (root : coq_N) (acc : (int * string) list ref) (fuel : int) : unit =
  if fuel <= 0 then () else
  match Engine.dget st.Engine.d_disk root with
  | None -> acc := (int_of_n root, "MISSING") :: !acc
  | Some a ->
      acc := (int_of_n root, string_of_n a.Engine.ap_over ^ " " ^ fmt_engine_body a.Engine.ap_body) :: !acc;
      (match a.Engine.ap_body with
       | Engine.Branches es -> L.iter (fun (_, p) -> engine_pages st p acc (fuel - 1)) es
       | Engine.Leaves l -> L.iter (fun e -> match e with Engine.LBk (_, r, _) -> engine_pages st r acc (fuel - 1) | _ -> ()) l)
let rec file_pages (rd : Codec.reader) (p : coq_N) (root : coq_N) (acc : (int * string) list ref) (fuel : int) : unit =
  if fuel <= 0 then () else
  match Codec.decode_page rd p root with
  | Codec.Bad m -> acc := (int_of_n root, "BAD:" ^ string_of_coq m) :: !acc
  | Codec.Ok (h, b) ->
      acc := (int_of_n root, string_of_n h.Codec.ph_overflow ^ " " ^ fmt_codec_body b) :: !acc;
      (match b with
       | Codec.PBranch es -> L.iter (fun (_, q) -> file_pages rd p q acc (fuel - 1)) es
       | Codec.PLeaf l -> L.iter (fun e -> match e with Codec.EBk (_, r, _) -> file_pages rd p r acc (fuel - 1) | _ -> ()) l
       | _ -> ())

let path_of (s : string) : Byte.byte list list =
  L.map tok (L.filter (fun x -> x <> "") (S.split_on_char '/' s))

(* engine <pagesize> <script>: replays write transactions in the model and compares every committed state with the file *)
let cmd_engine (ps : int) (script : string) : unit =
  let p = n_of_int ps in
  let st = ref (Engine.init_db p) in
  let ops : Engine.op list ref = ref [] in
  let ord : Byte.byte list list ref = ref [] in
  let bound : coq_N option ref = ref None in      (* id of the oldest read transaction open when the writer began *)
  let n = ref 0 and compared = ref 0 and exact = ref 0 in
  let reads = ref 0 and reads_skipped = ref 0 in
  let stop = ref false in
  (* the state of the open write transaction after the operations so far: EngineScan.tx_state, kept incrementally
     (tx_state = fold_res txm_step; an error state stays) *)
  let txst : (Engine.bucket * Engine.txs) Engine.res ref = ref (Engine.Err String.EmptyString) in
  let tx_open () = txst := Engine.Ok (Engine.root_bucket !st, Engine.begin_w !st) in
  let push o =
    ops := !ops @ [o];
    (match !txst with Engine.Ok acc -> txst := EngineScan.txm_step (!st).Engine.d_disk acc o | _ -> ()) in
  (* a read the library answered inside the write transaction: `<kind> <path> args | <answer>` *)
  let read_line (lineno : int) (what : string) (expected : string) (model : Engine.bucket -> string Engine.res) =
    match !txst with
    | Engine.Ok (rb, _) ->
        (match model rb with
         | Engine.Ok got ->
             incr reads;
             if got <> expected then begin
               Printf.printf "DIFF line=%d read inside the write transaction `%s`: model `%s` library `%s`\n" lineno what
                 (if S.length got > 200 then S.sub got 0 200 else got) (if S.length expected > 200 then S.sub expected 0 200 else expected);
               stop := true end
         | Engine.Panic msg -> Printf.printf "DIFF line=%d model panics on a read: %s\n" lineno (string_of_coq msg); stop := true
         | Engine.Err _ -> incr reads_skipped)
    | Engine.Panic msg -> Printf.printf "DIFF line=%d model panics: %s\n" lineno (string_of_coq msg); stop := true
    | Engine.Err _ -> incr reads_skipped in
  let fmt_lent (e : Engine.leafent) = match e with
    | Engine.LKv (k, v) -> "kv:" ^ hex k ^ ":" ^ hex v | Engine.LBk (k, _, _) -> "bk:" ^ hex k in
  let rmap f r = match r with Engine.Ok a -> Engine.Ok (f a) | Engine.Panic m -> Engine.Panic m | Engine.Err e -> Engine.Err e in
  L.iter (fun line ->
    incr n;
    if !stop then () else
    let (line, expected) =
      let len = S.length line in
      let rec find i = if i + 3 > len then -1 else if S.sub line i 3 = " | " then i else find (i + 1) in
      let i = find 0 in
      if i < 0 then (line, "") else (S.sub line 0 i, S.trim (S.sub line (i + 3) (len - i - 3))) in
    match L.filter (fun x -> x <> "") (S.split_on_char ' ' (S.trim line)) with
    | ["tx"] -> ops := []; ord := []; bound := None; tx_open ()
    | ["tx"; b] -> ops := []; ord := []; bound := Some (num b); tx_open ()
    | ["T"; path] -> push (Engine.Touch (path_of path))
    | ["P"; path; k; v] -> push (Engine.Put (path_of path, tok k, tok v))
    | ["D"; path; k] -> push (Engine.Del (path_of path, tok k))
    | ["X"; path; name] -> push (Engine.DelB (path_of path, tok name))
    | ["G"; path; k] ->
        let d = (!st).Engine.d_disk in
        (* twice: the engine's own search through the overlay, and the cursor machine on the overlay tree *)
        read_line !n ("get " ^ path ^ " " ^ k) expected (fun rb ->
          rmap (fun o -> match o with None -> "opt:none" | Some e -> "opt:" ^ fmt_lent e) (EngineScan.ovl_get d rb (path_of path) (tok k)));
        if not !stop then
        read_line !n ("cursor get " ^ path ^ " " ^ k) expected (fun rb ->
          rmap (fun o -> match o with None -> "opt:none" | Some i -> "opt:" ^ fmt_item i) (EngineScan.ovl_cget d rb (path_of path) (tok k)))
    | ["S"; path] ->
        read_line !n ("scan " ^ path) expected (fun rb ->
          rmap (fun r -> "items:" ^ fmt_cur r) (EngineScan.ovl_scan (!st).Engine.d_disk rb (path_of path)))
    | ["B"; path] | ["V"; path] ->
        (* buckets() / kv_pairs(): the cursor's entries filtered by kind *)
        let want_bk = (S.get (S.trim line) 0 = 'B') in
        read_line !n ((if want_bk then "buckets " else "kvpairs ") ^ path) expected (fun rb ->
          rmap (fun r -> match r with
                  | Cursor.CPanic -> "items: PANIC"
                  | Cursor.CVal l -> "items:" ^ fmt_items (L.filter (fun i -> match i with Spec.IBk _ -> want_bk | Spec.IKv _ -> not want_bk) l))
               (EngineScan.ovl_scan (!st).Engine.d_disk rb (path_of path)))
    | ["N"; path] ->
        read_line !n ("nextint " ^ path) expected (fun rb ->
          rmap (fun b -> "num:" ^ string_of_n (Engine.b_next b)) (EngineScan.ovl_bucket (!st).Engine.d_disk rb (path_of path)))
    | ["K"; path; k] ->
        read_line !n ("seek " ^ path ^ " " ^ k) expected (fun rb ->
          rmap (fun (ex, r) -> "seek:" ^ (if ex then "1" else "0") ^ ":" ^ fmt_cur r) (EngineScan.ovl_seek (!st).Engine.d_disk rb (path_of path) (tok k)))
    | ["R"; path; lk; lo; hk; hi] ->
        read_line !n ("range " ^ path) expected (fun rb ->
          rmap (fun r -> "items:" ^ fmt_cur r) (EngineScan.ovl_range (!st).Engine.d_disk rb (path_of path) (bound_of lk lo) (bound_of hk hi)))
    | "ord" :: names -> ord := L.map tok names
    | ["rollback"] -> ops := []; txst := Engine.Err String.EmptyString
    | ["reopen"] -> st := Engine.reopen_db !st
    | ["commit"; file] ->
        (match (match !bound with None -> Engine.run_tx !st !ops !ord | Some b -> EngineR.run_tx_r !st b !ops !ord) with
         | Engine.Ok st' ->
             st := st';
             incr compared;
             let s = read_file file in
             let rd = reader_of_string s in
             (match Tree.open_db rd p with
              | Codec.Bad m -> Printf.printf "DIFF line=%d file does not open: %s\n" !n (string_of_coq m); stop := true
              | Codec.Ok o ->
                  let m = o.Tree.o_meta in
                  let hdr_file = Printf.sprintf "root=%s next=%s np=%s fl=%s tx=%s free=%s" (string_of_n m.Meta.m_root) (string_of_n m.Meta.m_next)
                      (string_of_n m.Meta.m_np) (string_of_n m.Meta.m_fl) (string_of_n m.Meta.m_tx) (fmt_ids o.Tree.o_free) in
                  let hdr_model = Printf.sprintf "root=%s next=%s np=%s fl=%s tx=%s free=%s" (string_of_n st'.Engine.d_root) (string_of_n st'.Engine.d_next)
                      (string_of_n st'.Engine.d_np) (string_of_n st'.Engine.d_fl) (string_of_n st'.Engine.d_tx) (fmt_ids st'.Engine.d_flids) in
                  let a = ref [] and b = ref [] in
                  engine_pages st' st'.Engine.d_root a 100000;
                  file_pages rd p m.Meta.m_root b 100000;
                  let sa = L.sort compare !a and sb = L.sort compare !b in
                  if hdr_file <> hdr_model then begin
                    Printf.printf "DIFF line=%d header/free list: model `%s` file `%s`\n" !n hdr_model hdr_file; stop := true end
                  else if sa <> sb then begin
                    let rec first l1 l2 = match l1, l2 with
                      | x :: r1, y :: r2 -> if x = y then first r1 r2 else (Some x, Some y)
                      | x :: _, [] -> (Some x, None) | [], y :: _ -> (None, Some y) | [], [] -> (None, None) in
                    let show o = match o with Some (i, t) -> Printf.sprintf "page %d: %s" i (if S.length t > 120 then S.sub t 0 120 else t) | None -> "-" in
                    let (x, y) = first sa sb in
                    Printf.printf "DIFF line=%d pages: model `%s` file `%s`\n" !n (show x) (show y); stop := true end
                  else incr exact)
         | Engine.Panic msg -> Printf.printf "DIFF line=%d model panics: %s\n" !n (string_of_coq msg); stop := true
         | Engine.Err msg -> Printf.printf "DIFF line=%d model error: %s\n" !n (string_of_coq msg); stop := true)
    | _ -> ()) (read_lines script);
  Printf.printf "done commits=%d exact=%d reads=%d reads_skipped=%d\n" !compared !exact !reads !reads_skipped

(* ---------- model-side search: the engine model alone against the reference, over shape families ----------
   The engine is validated page-for-page against the library on the histories the checks run; here it is run on its
   own (two orders of magnitude faster) over exhaustive shape families and compared with the reference map. A hit is
   only a candidate: the driver replays it on the library. *)
let rec engine_dump (st : Engine.db) (root : coq_N) (fuel : int) : Spec.dump list =
  if fuel <= 0 then [] else
  match Engine.dget st.Engine.d_disk root with
  | None -> [Spec.DKv (bytes_of_string "MISSING-PAGE", [])]
  | Some a ->
      (match a.Engine.ap_body with
       | Engine.Branches es -> L.concat (L.map (fun (_, p) -> engine_dump st p (fuel - 1)) es)
       | Engine.Leaves l -> L.map (fun e -> match e with
           | Engine.LKv (k, v) -> Spec.DKv (k, v)
           | Engine.LBk (k, r, n) -> Spec.DBk (k, n, engine_dump st r (fuel - 1))) l)
let rec engine_runs (st : Engine.db) (root : coq_N) (fuel : int) : int list =
  if fuel <= 0 then [] else
  match Engine.dget st.Engine.d_disk root with
  | None -> [-1]
  | Some a ->
      let own = L.init (int_of_n a.Engine.ap_over + 1) (fun i -> int_of_n root + i) in
      own @ (match a.Engine.ap_body with
             | Engine.Branches es -> L.concat (L.map (fun (_, p) -> engine_runs st p (fuel - 1)) es)
             | Engine.Leaves l -> L.concat (L.map (fun e -> match e with Engine.LBk (_, r, _) -> engine_runs st r (fuel - 1) | _ -> []) l))
let engine_partition_ok (st : Engine.db) : bool =
  let reach = engine_runs st st.Engine.d_root 100000 in
  let fl = L.init (int_of_n st.Engine.d_fln) (fun i -> int_of_n st.Engine.d_fl + i) in
  let all = L.sort compare (reach @ fl @ L.map int_of_n st.Engine.d_flids) in
  all = L.init (int_of_n st.Engine.d_np - 2) (fun i -> i + 2)

let lk (i : int) (n : int) : string =
  let pre = Printf.sprintf "k%03d" i in
  if S.length pre >= n then pre else pre ^ S.make (n - S.length pre) 'x'
let bs (s : string) : Byte.byte list = bytes_of_string s

(* both machines driven by the same path-addressed operations *)
type mop = MTouch of string list | MPut of string list * string * string | MDel of string list * string | MDelB of string list * string

let emit_hist : Buffer.t option ref = ref None
let hexs (x : string) : string = if x = "" then "-" else S.concat "" (L.init (S.length x) (fun i -> Printf.sprintf "%02x" (Char.code (S.get x i))))
let hline fmt = Printf.ksprintf (fun l -> match !emit_hist with Some b -> Buffer.add_string b l; Buffer.add_char b '\n' | None -> ()) fmt
(* the statement about reads INSIDE a write transaction, evaluated (every 4th transaction): after the first half of the
   operations and after all of them, a cursor scan of EVERY bucket of the reference's tree through the model's overlay
   (EngineScan.tx_scan) returns the reference's entries, and a path that is no bucket answers an error *)
let reads_calls = ref 0 and reads_scans = ref 0
let reads_inside (eng : Engine.db) (eops : Engine.op list) : string option =
  incr reads_calls;
  if !reads_calls mod 4 <> 0 then None else begin
    let n = L.length eops in
    let prefix k = L.filteri (fun i _ -> i < k) eops in
    let bad = ref None in
    L.iter (fun ops ->
      if !bad = None then begin
        let m = EngineAbs.sem_tx ops (EngineAbs.abs_db eng) in
        let rec walk (path : Byte.byte list list) (b : Spec.snode) =
          if !bad = None then begin
            incr reads_scans;
            (match EngineScan.tx_scan eng ops path with
             | Engine.Ok (Cursor.CVal l) ->
                 if l <> Spec.items_of b then
                   bad := Some (Printf.sprintf "statement: scan inside the write transaction after %d of %d operations at /%s differs from the reference"
                                  (L.length ops) n (S.concat "/" (L.map hex path)))
             | Engine.Ok Cursor.CPanic -> bad := Some "cursor machine panics on the overlay tree"
             | Engine.Panic msg -> bad := Some ("panic inside the transaction: " ^ string_of_coq msg)
             | Engine.Err msg -> bad := Some ("scan inside the write transaction: error " ^ string_of_coq msg));
            (match b with
             | Spec.SBucket (_, _, es) ->
                 L.iter (fun (k, c) -> match c with
                   | Spec.SBucket _ -> walk (path @ [k]) c
                   | Spec.SVal _ ->
                       (match EngineScan.tx_scan eng ops (path @ [k]) with
                        | Engine.Err _ -> ()
                        | _ -> bad := Some "scan of a path through a plain value did not answer an error")) es
             | _ -> ())
          end in
        walk [] m
      end) [prefix (n / 2); eops];
    !bad
  end

let apply_tx (eng : Engine.db) (spec : Spec.sdb) (txn : int) (ops : mop list) : (Engine.db, string) result * Spec.sdb =
  (* the reference machine is driven by the EXTRACTED SpecPath.path_step (handles per path, one get_or_create call per
     component); the engine gets the same operations with every successful open made explicit (SpecPath.expand) *)
  let to_op o = match o with
    | MTouch p -> Engine.Touch (L.map bs p)
    | MPut (p, k, v) -> Engine.Put (L.map bs p, bs k, bs v)
    | MDel (p, k) -> Engine.Del (L.map bs p, bs k)
    | MDelB (p, nm) -> Engine.DelB (L.map bs p, bs nm) in
  let ops = L.map to_op ops in
  let st = L.fold_left SpecPath.path_step (SpecPath.pinit spec.Spec.d_committed) ops in
  let committed' = Spec.strip st.SpecPath.p_tx.Spec.t_root in
  let sp' = { Spec.d_committed = committed'; Spec.d_txs = [] } in
  let eops = L.concat (L.map SpecPath.expand ops) in
  hline "begin %d w" txn;
  L.iter (fun c -> match c with
    | Spec.OGoc (h, nm, nh) -> hline "goc %d %d %s %d" txn (int_of_n h) (hexs (string_of_bytes nm)) (int_of_n nh)
    | Spec.OPut (h, k, v) -> hline "put %d %d %s %s" txn (int_of_n h) (hexs (string_of_bytes k)) (hexs (string_of_bytes v))
    | Spec.ODel (h, k) -> hline "del %d %d %s" txn (int_of_n h) (hexs (string_of_bytes k))
    | Spec.ODelB (h, nm) -> hline "delb %d %d %s" txn (int_of_n h) (hexs (string_of_bytes nm))
    | _ -> ()) (L.rev st.SpecPath.p_log);
  hline "commit %d" txn; hline "snap"; hline "check";
  hline "begin %d r" (txn + 100000); hline "dump %d" (txn + 100000); hline "drop %d" (txn + 100000);
  let er = match Engine.run_tx_auto eng eops with
    | Engine.Ok e ->
        (* the tier-B statement itself, evaluated: abs_db after = sem_tx ops (abs_db before) = the reference machine's root *)
        let lhs = EngineAbs.abs_db e and rhs = EngineAbs.sem_tx eops (EngineAbs.abs_db eng) in
        if not (EngineRefines.readableb e) then Error "hypothesis of the tier-B theorem: the new state is not `readable`"
        else if not (EngineRefines.db_alloc_okb e) then Error "unproved half of the invariant: the new state fails the allocation check db_alloc_okb"
        else if lhs <> rhs then Error "statement: abs_db (run_tx st ops) <> sem_tx ops (abs_db st)"
        else if rhs <> committed' then Error "statement: sem_tx (expand ops) differs from the handle-based reference machine"
        else (match reads_inside eng eops with Some m -> Error m | None -> Ok e)
    | Engine.Panic m -> Error ("panic: " ^ string_of_coq m)
    | Engine.Err m -> Error ("error: " ^ string_of_coq m) in
  (er, sp')

let same_contents (e : Engine.db) (sp : Spec.sdb) : string option =
  let c = sp.Spec.d_committed in
  let want = S.concat "" (L.map fmt_dump (Spec.dump_of c)) in
  let got = S.concat "" (L.map fmt_dump (engine_dump e e.Engine.d_root 100000)) in
  if string_of_n (Spec.b_next c) <> string_of_n e.Engine.d_next then Some "root insertion counter differs"
  else if want <> got then Some "contents differ from the reference"
  else if not (engine_partition_ok e) then Some "pages are not partitioned into reachable / free-list run / free"
  else None

(* msearch subsets <P> <n> <keylen> <subs: i,j,..|-> <lo_mask> <hi_mask>  |  msearch ranges <P> <n> <keylen> <subs>
   base: bucket "b" with keys lk(i) (one transaction each) and, in the transaction of key i for i in subs, a nested
   bucket "k%03ds" holding one pair; then ONE transaction: [touch one nested bucket] + delete a subset / range of the keys
   [+ insert before / middle / after]; compare with the reference *)
let cmd_msearch (args : string list) : unit =
  match args with
  | kind :: ps :: n :: kl :: every :: rest ->
      let p = int_of_string ps and n = int_of_string n and kl = int_of_string kl in
      let subs = if every = "-" then [] else L.map int_of_string (S.split_on_char ',' every) in
      let eng = ref (Engine.init_db (n_of_int p)) and spec = ref Spec.init_sdb and txn = ref 1 in
      let step ops =
        let (er, sp) = apply_tx !eng !spec !txn ops in
        incr txn;
        (match er with Ok e -> eng := e | Error m -> failwith ("base tree: " ^ m));
        spec := sp in
      step [MTouch ["b"]];
      for i = 0 to n - 1 do
        let ops = [MPut (["b"], lk i kl, unhex1 (Printf.sprintf "r8:%d" i))] @
                  (if L.mem i subs then [MTouch ["b"; Printf.sprintf "k%03ds" i]; MPut (["b"; Printf.sprintf "k%03ds" i], "x", "y")] else []) in
        step ops
      done;
      (match same_contents !eng !spec with Some m -> failwith ("base tree: " ^ m) | None -> ());
      let base_e = !eng and base_s = !spec and base_t = !txn in
      let cases = ref 0 and hits = ref 0 in
      let try_case (descr : string) (dels : int list) (touch : int option) (touch_all : bool) (ins : string) =
        incr cases;
        let ops =
          (if touch_all then L.map (fun j -> MTouch ["b"; Printf.sprintf "k%03ds" j]) subs else []) @
          (match touch with Some j -> [MPut (["b"; Printf.sprintf "k%03ds" j], "t", "u")] | None -> []) @
          L.map (fun i -> MDel (["b"], lk i kl)) dels @
          (match ins with
           | "before" -> [MPut (["b"], "a", "v")] | "middle" -> [MPut (["b"], Printf.sprintf "k%03dm" (n / 2), "v")]
           | "after" -> [MPut (["b"], "z", "v")] | _ -> []) in
        let (er, sp) = apply_tx base_e base_s base_t ops in
        match er with
        | Error m -> incr hits; if !hits <= 20 then Printf.printf "HIT %s :: model %s\n" descr m
        | Ok e ->
            (match same_contents e sp with
             | Some m -> incr hits; if !hits <= 20 then Printf.printf "HIT %s :: %s\n" descr m
             | None -> ()) in
      let touches = None :: L.map (fun j -> Some j) subs in
      (match kind, rest with
       | "subsets", [lo; hi] ->
           for m = int_of_string lo to int_of_string hi - 1 do
             let dels = L.filter (fun i -> (m lsr i) land 1 = 1) (L.init n (fun i -> i)) in
             L.iter (fun tch ->
               L.iter (fun ins ->
                 try_case (Printf.sprintf "subsets n=%d kl=%d subs=%s mask=%x touch=%s ins=%s" n kl every m
                             (match tch with Some j -> string_of_int j | None -> "None") ins) dels tch false ins)
                 ["none"; "before"; "middle"; "after"]) touches
           done
       | "ranges", _ ->
           for lo = 0 to n - 1 do
             for hi = lo + 1 to n do
               let dels = L.init (hi - lo) (fun i -> lo + i) in
               L.iter (fun tch ->
                 try_case (Printf.sprintf "ranges n=%d kl=%d subs=%s del=[%d,%d) touch=%s all=0" n kl every lo hi
                             (match tch with Some j -> string_of_int j | None -> "None")) dels tch false "none";
                 try_case (Printf.sprintf "ranges n=%d kl=%d subs=%s del=[%d,%d) touch=%s all=1" n kl every lo hi
                             (match tch with Some j -> string_of_int j | None -> "None")) dels tch true "none") touches
             done
           done
       | _ -> prerr_endline "msearch: bad family");
      Printf.printf "done cases=%d hits=%d scans_inside_tx=%d\n" !cases !hits !reads_scans
  | _ -> prerr_endline "usage: monitor msearch subsets|ranges <P> <n> <keylen> <subs> [lo hi] | msearch random <P> <seed0> <nseeds> <ntx> <nops>"

(* msearch random: chains of transactions of random path-addressed operations over a small universe in which names
   collide (a name is a value in one bucket and a bucket in another), depth <= 3, short and long keys/values (splits,
   overflow), bucket deletes of whole subtrees; after EVERY transaction: engine contents = reference machine = sem_tx,
   pages partitioned *)
let cmd_msearch_random (args : string list) : unit =
  match args with
  | ps :: seed0 :: nseeds :: ntx :: nops :: more ->
      if more = ["emit"] then emit_hist := Some (Buffer.create 65536);
      let p = int_of_string ps and seed0 = int_of_string seed0 and nseeds = int_of_string nseeds
      and ntx = int_of_string ntx and nops = int_of_string nops in
      let cases = ref 0 and hits = ref 0 in
      for seed = seed0 to seed0 + nseeds - 1 do
        let st = Random.State.make [| seed; 77 |] in
        let ri n = Random.State.int st n in
        let names = [| "a"; "b"; "c"; "d"; "e" |] in
        let name () = names.(ri (Array.length names)) in
        let key () = match ri 10 with
          | 0 | 1 | 2 -> name ()
          | 3 | 4 | 5 | 6 -> Printf.sprintf "k%02d" (ri 30)
          | _ -> lk (ri 30) (100 + 50 * ri 4) in
        let value () = match ri 8 with
          | 0 -> S.make (p + ri (2 * p)) 'v'          (* overflow *)
          | 1 | 2 -> S.make (50 + ri 300) 'w'
          | _ -> Printf.sprintf "v%d" (ri 1000) in
        let path () = L.init (ri 4) (fun _ -> name ()) in
        let path1 () = L.init (1 + ri 3) (fun _ -> name ()) in      (* the API has no put / delete on the root *)
        let eng = ref (Engine.init_db (n_of_int p)) and spec = ref Spec.init_sdb in
        (try
          for t = 1 to ntx do
            let ops = L.init (1 + ri nops) (fun _ ->
              match ri 20 with
              | 0 | 1 -> MDelB (path (), name ())
              | 2 | 3 | 4 | 5 | 6 -> MDel (path1 (), key ())
              | 7 -> MTouch (path ())
              | _ -> MPut (path1 (), key (), value ())) in
            incr cases;
            let (er, sp) = apply_tx !eng !spec t ops in
            (match er with
             | Error m -> incr hits; if !hits <= 20 && !emit_hist = None then Printf.printf "HIT random P=%d seed=%d ntx=%d nops=%d tx=%d :: model %s\n" p seed ntx nops t m; raise Exit
             | Ok e ->
                 (match same_contents e sp with
                  | Some m -> incr hits; if !hits <= 20 && !emit_hist = None then Printf.printf "HIT random P=%d seed=%d ntx=%d nops=%d tx=%d :: %s\n" p seed ntx nops t m; raise Exit
                  | None -> eng := e; spec := sp))
          done
        with Exit -> ())
      done;
      (match !emit_hist with Some b -> print_string (Buffer.contents b) | None -> Printf.printf "done cases=%d hits=%d scans_inside_tx=%d\n" !cases !hits !reads_scans)
  | _ -> prerr_endline "usage: monitor msearch random <P> <seed0> <nseeds> <ntx> <nops> [emit]"

let () =
  match Array.to_list Sys.argv with
  | _ :: "msearch" :: "random" :: args -> cmd_msearch_random args
  | _ :: "msearch" :: args -> cmd_msearch args
  | _ :: "engine" :: ps :: script :: _ -> cmd_engine (int_of_string ps) script
  | _ :: "api" :: _ -> cmd_api ()
  | _ :: "spec" :: hist :: fout :: eout :: _ -> cmd_spec hist fout eout
  | _ :: "select" :: ps :: files -> cmd_select (int_of_string ps) files
  | _ :: "inv" :: ps :: files -> cmd_inv (int_of_string ps) files
  | _ :: "cursor" :: ps :: file :: ops :: _ -> cmd_cursor (int_of_string ps) file ops
  | _ :: "pl" :: ps :: evs :: _ -> cmd_pl (int_of_string ps) evs
  | _ :: "damage" :: ps :: image :: muts :: _ -> cmd_damage (int_of_string ps) image muts
  | _ :: "conc" :: file :: _ -> cmd_conc file
  | _ -> prerr_endline "usage: monitor spec|select|inv|cursor|pl|damage|conc ..."; exit 2
