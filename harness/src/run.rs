// `run`: execute a history file against the library, one canonical result line per command.
use crate::util::*;
use jammdb::{Bucket, Data, OpenOptions, Tx, DB};
use std::collections::HashMap;
use std::io::{BufRead, Write};
use std::ops::Bound;

pub struct Opts {
    pub pagesize: u64,
    pub num_pages: usize,
    pub strict: bool,
    pub populate: bool,
}

pub struct St {
    pub path: String,
    pub opts: Opts,
    pub db: *mut DB,
    pub txs: HashMap<u64, Tx<'static>>,
    pub handles: HashMap<(u64, u64), Bucket<'static, 'static>>,
    pub snapdir: Option<String>,
    pub nsnap: u64,
}

pub fn open_db(path: &str, o: &Opts) -> Result<DB, String> {
    match guarded(|| {
        OpenOptions::new()
            .pagesize(o.pagesize)
            .num_pages(o.num_pages)
            .strict_mode(o.strict)
            .mmap_populate(o.populate)
            .open(path)
    }) {
        Ok(Ok(db)) => Ok(db),
        Ok(Err(e)) => Err(err_name(&e)),
        Err(p) => Err(p),
    }
}

enum Nm {
    V(Vec<u8>),
    S(String),
    Sl(&'static [u8]),
    St(&'static str),
}

impl Nm {
    fn pick(name: Vec<u8>, salt: u64) -> Nm {
        let utf8 = std::str::from_utf8(&name).is_ok();
        match (salt + name.len() as u64) % 4 {
            1 if utf8 => Nm::S(String::from_utf8(name).unwrap()),
            2 => Nm::Sl(Box::leak(name.into_boxed_slice())),
            3 if utf8 => Nm::St(Box::leak(String::from_utf8(name).unwrap().into_boxed_str())),
            _ => Nm::V(name),
        }
    }
}

macro_rules! with_name {
    ($nm:expr, $x:ident => $e:expr) => {
        match $nm {
            Nm::V($x) => $e,
            Nm::S($x) => $e,
            Nm::Sl($x) => $e,
            Nm::St($x) => $e,
        }
    };
}

fn fmt_data(d: &Data) -> String {
    match d {
        Data::KeyValue(kv) => format!("kv:{}:{}", hex(kv.key()), hex(kv.value())),
        Data::Bucket(b) => format!("bk:{}", hex(b.name())),
    }
}

const LIMIT: usize = 50_000;

fn drain<I: Iterator<Item = String>>(it: &mut I, extra: usize) -> String {
    let mut out = String::new();
    let mut n = 0;
    while let Some(s) = it.next() {
        out.push(' ');
        out.push_str(&s);
        n += 1;
        if n > LIMIT {
            out.push_str(" ENDLESS");
            return out;
        }
    }
    for _ in 0..extra {
        if let Some(s) = it.next() {
            out.push_str(" EXTRA:");
            out.push_str(&s);
        }
    }
    out
}

pub fn dump_bucket(b: &Bucket<'static, 'static>) -> String {
    let mut out = String::new();
    for d in b.cursor() {
        match d {
            Data::KeyValue(kv) => out.push_str(&format!("(kv {} {})", hex(kv.key()), hex(kv.value()))),
            Data::Bucket(name) => {
                let nm = name.name().to_vec();
                match b.get_bucket(nm.clone()) {
                    Ok(sub) => {
                        let ni = sub.next_int();
                        out.push_str(&format!("(bk {} {} {})", hex(&nm), ni, dump_bucket(&sub)));
                    }
                    Err(e) => out.push_str(&format!("(bk {} ERR:{})", hex(&nm), err_name(&e))),
                }
            }
        }
    }
    out
}

pub fn dump_tx(tx: &Tx<'static>) -> String {
    let mut out = String::from("dump:");
    let tx2: &'static Tx<'static> = unsafe { std::mem::transmute(tx) };
    for (name, b) in tx2.buckets() {
        let ni = b.next_int();
        out.push_str(&format!("(bk {} {} {})", hex(name.name()), ni, dump_bucket(&b)));
    }
    out
}

fn bound<'a>(kind: &str, k: &'a [u8]) -> Bound<&'a [u8]> {
    match kind {
        "I" => Bound::Included(k),
        "E" => Bound::Excluded(k),
        _ => Bound::Unbounded,
    }
}

impl St {
    fn db(&self) -> &'static DB {
        unsafe { &*self.db }
    }

    pub fn close(&mut self) {
        self.handles.clear();
        self.txs.clear();
        if !self.db.is_null() {
            unsafe { drop(Box::from_raw(self.db)) };
            self.db = std::ptr::null_mut();
        }
    }

    pub fn open(&mut self) -> String {
        match open_db(&self.path, &self.opts) {
            Ok(db) => {
                self.db = Box::into_raw(Box::new(db));
                "ok".into()
            }
            Err(e) => e,
        }
    }

    fn bucket_op(&mut self, t: u64, h: u64, f: impl FnOnce(&Bucket<'static, 'static>) -> String) -> String {
        match self.handles.get(&(t, h)) {
            None => "badop".into(),
            Some(b) => match guarded(|| f(b)) {
                Ok(s) => s,
                Err(p) => p,
            },
        }
    }

    fn getter(&mut self, kind: &str, t: u64, h: u64, name: Vec<u8>, nh: u64) -> String {
        // the bucket name is passed as one of the library's name types (Vec<u8>, String, &[u8], &str), chosen from the
        // command itself so that a history replays exactly: the ToBytes glue and the per-transaction bucket cache must
        // not care which one the caller used
        let name = Nm::pick(name, t + h + nh);
        let r: Result<Result<Bucket<'static, 'static>, jammdb::Error>, String> = if h == 0 {
            let tx: &'static Tx<'static> = match self.txs.get(&t) {
                None => return "badop".into(),
                Some(tx) => unsafe { std::mem::transmute(tx) },
            };
            guarded(|| match kind {
                "create" => with_name!(name, x => tx.create_bucket(x)),
                "getb" => with_name!(name, x => tx.get_bucket(x)),
                _ => with_name!(name, x => tx.get_or_create_bucket(x)),
            })
        } else {
            let b = match self.handles.get(&(t, h)) {
                None => return "badop".into(),
                Some(b) => b,
            };
            guarded(|| match kind {
                "create" => with_name!(name, x => b.create_bucket(x)),
                "getb" => with_name!(name, x => b.get_bucket(x)),
                _ => with_name!(name, x => b.get_or_create_bucket(x)),
            })
        };
        match r {
            Ok(Ok(b)) => {
                self.handles.insert((t, nh), b);
                "ok".into()
            }
            Ok(Err(e)) => err_name(&e),
            Err(p) => p,
        }
    }

    /// like `getb`, but the handle is the Bucket value yielded by the `buckets()` iterator (a different construction
    /// site of Bucket in the library); names the iterator does not yield are classified by a plain get_bucket
    fn getter_iter(&mut self, t: u64, h: u64, name: Vec<u8>, nh: u64) -> String {
        let r: Result<Option<Bucket<'static, 'static>>, String> = if h == 0 {
            let tx: &'static Tx<'static> = match self.txs.get(&t) {
                None => return "badop".into(),
                Some(tx) => unsafe { std::mem::transmute(tx) },
            };
            guarded(|| tx.buckets().find(|(nm, _)| nm.name() == &name[..]).map(|(_, b)| b))
        } else {
            let b: &'static Bucket<'static, 'static> = match self.handles.get(&(t, h)) {
                None => return "badop".into(),
                Some(b) => unsafe { std::mem::transmute(b) },
            };
            guarded(|| b.buckets().find(|(nm, _)| nm.name() == &name[..]).map(|(_, b)| b))
        };
        match r {
            Ok(Some(b)) => {
                self.handles.insert((t, nh), b);
                "ok".into()
            }
            Ok(None) => self.getter("getb", t, h, name, nh),
            Err(p) => p,
        }
    }

    pub fn exec(&mut self, line: &str) -> Option<String> {
        let w: Vec<&str> = line.split_whitespace().collect();
        if w.is_empty() || w[0].starts_with('#') {
            return None;
        }
        let n = |i: usize| -> u64 { w[i].parse().unwrap() };
        Some(match w[0] {
            "begin" => {
                let t = n(1);
                let db = self.db();
                match guarded(|| db.tx(w[2] == "w")) {
                    Ok(Ok(tx)) => {
                        self.txs.insert(t, tx);
                        "ok".into()
                    }
                    Ok(Err(e)) => err_name(&e),
                    Err(p) => p,
                }
            }
            "commit" => {
                let t = n(1);
                self.handles.retain(|k, _| k.0 != t);
                match self.txs.remove(&t) {
                    None => "badop".into(),
                    Some(tx) => match guarded(|| tx.commit()) {
                        Ok(Ok(())) => "ok".into(),
                        Ok(Err(e)) => err_name(&e),
                        Err(p) => p,
                    },
                }
            }
            "drop" => {
                let t = n(1);
                self.handles.retain(|k, _| k.0 != t);
                match self.txs.remove(&t) {
                    None => "ok".into(),
                    Some(tx) => match guarded(|| drop(tx)) {
                        Ok(()) => "ok".into(),
                        Err(p) => p,
                    },
                }
            }
            "reopen" => {
                self.close();
                self.open()
            }
            "create" | "getb" | "goc" => self.getter(w[0], n(1), n(2), unhex(w[3]), n(4)),
            "getbi" => self.getter_iter(n(1), n(2), unhex(w[3]), n(4)),
            "delb" => {
                let (t, h, name) = (n(1), n(2), unhex(w[3]));
                let name = Nm::pick(name, t + h);
                if h == 0 {
                    match self.txs.get(&t) {
                        None => "badop".into(),
                        Some(tx) => match guarded(|| with_name!(name, x => tx.delete_bucket(x))) {
                            Ok(Ok(())) => "ok".into(),
                            Ok(Err(e)) => err_name(&e),
                            Err(p) => p,
                        },
                    }
                } else {
                    self.bucket_op(t, h, |b| match with_name!(name, x => b.delete_bucket(x)) {
                        Ok(()) => "ok".into(),
                        Err(e) => err_name(&e),
                    })
                }
            }
            "put" => {
                let (k, v) = (unhex(w[3]), unhex(w[4]));
                self.bucket_op(n(1), n(2), |b| match b.put(k, v) {
                    Ok(None) => "opt:none".into(),
                    Ok(Some(kv)) => format!("opt:kv:{}:{}", hex(kv.key()), hex(kv.value())),
                    Err(e) => err_name(&e),
                })
            }
            "get" => {
                let k = unhex(w[3]);
                self.bucket_op(n(1), n(2), |b| match b.get(k) {
                    None => "opt:none".into(),
                    Some(d) => format!("opt:{}", fmt_data(&d)),
                })
            }
            "getkv" => {
                let k = unhex(w[3]);
                self.bucket_op(n(1), n(2), |b| match b.get_kv(k) {
                    None => "opt:none".into(),
                    Some(kv) => format!("opt:kv:{}:{}", hex(kv.key()), hex(kv.value())),
                })
            }
            "del" => {
                let k = unhex(w[3]);
                self.bucket_op(n(1), n(2), |b| match b.delete(k) {
                    Ok(kv) => format!("opt:kv:{}:{}", hex(kv.key()), hex(kv.value())),
                    Err(e) => err_name(&e),
                })
            }
            "nextint" => self.bucket_op(n(1), n(2), |b| format!("num:{}", b.next_int())),
            "scan" => self.bucket_op(n(1), n(2), |b| {
                let mut it = b.cursor().map(|d| fmt_data(&d));
                format!("items:{}", drain(&mut it, 3))
            }),
            "seek" => {
                let k = unhex(w[3]);
                // optional 5th word: the cursor has already handed out that many entries when it is asked to seek
                // (a re-used cursor must behave like a fresh one)
                let pre: usize = if w.len() > 4 { w[4].parse().unwrap_or(0) } else { 0 };
                self.bucket_op(n(1), n(2), |b| {
                    let mut c = b.cursor();
                    for _ in 0..pre {
                        let _ = c.next();
                    }
                    let found = c.seek(&k);
                    let mut it = c.map(|d| fmt_data(&d));
                    format!("seek:{}:{}", if found { 1 } else { 0 }, drain(&mut it, 2))
                })
            }
            "range" => {
                let (lk, hk) = (unhex(w[4]), unhex(w[6]));
                let (lkind, hkind) = (w[3].to_string(), w[5].to_string());
                self.bucket_op(n(1), n(2), |b| {
                    let lo = bound(&lkind, &lk);
                    let hi = bound(&hkind, &hk);
                    let lo: Bound<&'static [u8]> = unsafe { std::mem::transmute(lo) };
                    let hi: Bound<&'static [u8]> = unsafe { std::mem::transmute(hi) };
                    let b2: &'static Bucket<'static, 'static> = unsafe { std::mem::transmute(b) };
                    let mut it = b2.range((lo, hi)).map(|d| fmt_data(&d));
                    format!("items:{}", drain(&mut it, 2))
                })
            }
            "buckets" => {
                let (t, h) = (n(1), n(2));
                if h == 0 {
                    match self.txs.get(&t) {
                        None => "badop".into(),
                        Some(tx) => {
                            let tx2: &'static Tx<'static> = unsafe { std::mem::transmute(tx) };
                            match guarded(|| {
                                let mut it = tx2.buckets().map(|(nm, _)| format!("bk:{}", hex(nm.name())));
                                format!("items:{}", drain(&mut it, 2))
                            }) {
                                Ok(s) => s,
                                Err(p) => p,
                            }
                        }
                    }
                } else {
                    self.bucket_op(t, h, |b| {
                        let mut it = b.buckets().map(|(nm, _)| format!("bk:{}", hex(nm.name())));
                        format!("items:{}", drain(&mut it, 2))
                    })
                }
            }
            "kvpairs" => self.bucket_op(n(1), n(2), |b| {
                let mut it = b.kv_pairs().map(|kv| format!("kv:{}:{}", hex(kv.key()), hex(kv.value())));
                format!("items:{}", drain(&mut it, 2))
            }),
            "dump" => match self.txs.get(&n(1)) {
                None => "badop".into(),
                Some(tx) => match guarded(|| dump_tx(tx)) {
                    Ok(s) => s,
                    Err(p) => p,
                },
            },
            // ---- harness-only commands (not part of the reference alphabet) ----
            "check" => {
                let db = self.db();
                match guarded(|| db.check()) {
                    Ok(Ok(())) => "check:ok".into(),
                    Ok(Err(e)) => format!("check:{}", err_name(&e)),
                    Err(p) => format!("check:{}", p),
                }
            }
            "snap" => {
                // copy of the database file as it is now
                let dir = self.snapdir.clone().unwrap_or_else(|| ".".into());
                let dst = format!("{}/{:05}.db", dir, self.nsnap);
                self.nsnap += 1;
                match snapshot(&self.path, &dst, self.opts.pagesize) {
                    Ok(()) => format!("snap:{}", dst),
                    Err(e) => format!("snap:ERR:{}", e),
                }
            }
            "filelen" => match std::fs::metadata(&self.path) {
                Ok(m) => format!("filelen:{}", m.len()),
                Err(e) => format!("filelen:ERR:{}", e),
            },
            "filehash" | "filehash=" => match std::fs::read(&self.path) {
                Ok(b) => format!("filehash:{:016x}", fnv64(&b)),
                Err(e) => format!("filehash:ERR:{}", e),
            },
            _ => "badcmd".into(),
        })
    }
}

pub fn fnv64(b: &[u8]) -> u64 {
    let mut h: u64 = 0xcbf29ce484222325;
    for x in b {
        h ^= *x as u64;
        h = h.wrapping_mul(0x100000001b3);
    }
    h
}

/// Copy the used part of the file: max(num_pages) of the two header slots (+ slack), whole file when small.
pub fn snapshot(src: &str, dst: &str, pagesize: u64) -> std::io::Result<()> {
    use std::io::Read;
    let mut f = std::fs::File::open(src)?;
    let len = f.metadata()?.len();
    let mut want = len;
    if len > (1 << 20) {
        let mut hdr = vec![0u8; (2 * pagesize) as usize];
        f.read_exact(&mut hdr)?;
        let np = |slot: u64| -> u64 {
            let o = (slot * pagesize + 72) as usize;
            u64::from_le_bytes(hdr[o..o + 8].try_into().unwrap())
        };
        let m = np(0).max(np(1)).min(len / pagesize);
        want = ((m + 1) * pagesize).min(len).max(1 << 20);
        use std::io::Seek;
        f.seek(std::io::SeekFrom::Start(0))?;
    }
    let mut buf = vec![0u8; want as usize];
    f.read_exact(&mut buf)?;
    std::fs::write(dst, &buf)
}

pub fn main(args: &[String]) -> i32 {
    // run <dbpath> <history> [--pagesize N] [--num-pages N] [--strict] [--populate] [--snapdir D]
    let path = args[0].clone();
    let hist = args[1].clone();
    let mut opts = Opts { pagesize: 4096, num_pages: 32, strict: false, populate: false };
    let mut snapdir = None;
    let mut i = 2;
    while i < args.len() {
        match args[i].as_str() {
            "--pagesize" => {
                opts.pagesize = args[i + 1].parse().unwrap();
                i += 1
            }
            "--num-pages" => {
                opts.num_pages = args[i + 1].parse().unwrap();
                i += 1
            }
            "--strict" => opts.strict = true,
            "--populate" => opts.populate = true,
            "--snapdir" => {
                snapdir = Some(args[i + 1].clone());
                i += 1
            }
            _ => {}
        }
        i += 1;
    }
    #[cfg(feature = "hooks")]
    crate::sched::install_logger();
    let mut st = St {
        path,
        opts,
        db: std::ptr::null_mut(),
        txs: HashMap::new(),
        handles: HashMap::new(),
        snapdir,
        nsnap: 0,
    };
    let out = std::io::stdout();
    let r = st.open();
    if r != "ok" {
        println!("open:{}", r);
        return 0;
    }
    let f = std::io::BufReader::new(std::fs::File::open(&hist).unwrap());
    for line in f.lines() {
        let line = line.unwrap();
        if let Some(res) = st.exec(&line) {
            let mut o = out.lock();
            #[cfg(feature = "hooks")]
            for ev in crate::sched::take_log() {
                writeln!(o, "{}", ev).unwrap();
            }
            writeln!(o, "{}", res).unwrap();
            o.flush().unwrap();
        }
    }
    st.close();
    0
}
