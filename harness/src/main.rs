// Verification harness for jammdb: executes history files against the real library and prints one
// canonical result line per command. Every library call is wrapped in catch_unwind.
mod util;
mod run;
mod misc;
#[cfg(feature = "hooks")]
mod sched;

fn main() {
    let args: Vec<String> = std::env::args().collect();
    if args.len() < 2 {
        eprintln!("usage: jamm-harness <run|open-dump|...> ...");
        std::process::exit(2);
    }
    util::install_panic_hook();
    let code = match args[1].as_str() {
        "run" => run::main(&args[2..]),
        "open-dump" => misc::open_dump(&args[2..]),
        "builder" => misc::builder(&args[2..]),
        "proc" => misc::proc_worker(&args[2..]),
        "grow" => misc::grow(&args[2..]),
        "damage" => misc::damage(&args[2..]),
        #[cfg(feature = "hooks")]
        "threads" => sched::main(&args[2..]),
        _ => {
            eprintln!("unknown subcommand {}", args[1]);
            2
        }
    };
    std::process::exit(code);
}
