// Small sub-commands: open-dump (open an image, dump contents + check), builder, proc, grow.
use crate::run::{dump_tx, open_db, Opts};
use crate::util::*;

fn parse_opts(args: &[String]) -> Opts {
    let mut o = Opts { pagesize: 4096, num_pages: 32, strict: false, populate: false };
    let mut i = 0;
    while i < args.len() {
        match args[i].as_str() {
            "--pagesize" => {
                o.pagesize = args[i + 1].parse().unwrap();
                i += 1
            }
            "--num-pages" => {
                o.num_pages = args[i + 1].parse().unwrap();
                i += 1
            }
            "--strict" => o.strict = true,
            "--populate" => o.populate = true,
            _ => {}
        }
        i += 1;
    }
    o
}

/// open-dump <path>... [opts]: for each path print "<path> <open result> <dump> <check>"
pub fn open_dump(args: &[String]) -> i32 {
    let opts = parse_opts(args);
    let paths: Vec<&String> = {
        let mut v = Vec::new();
        let mut i = 0;
        while i < args.len() {
            if args[i] == "--pagesize" || args[i] == "--num-pages" {
                i += 2;
                continue;
            }
            if !args[i].starts_with("--") {
                v.push(&args[i]);
            }
            i += 1;
        }
        v
    };
    for p in paths {
        println!("{} {}", p, open_dump_one(p, &opts));
    }
    0
}

pub fn open_dump_one(p: &str, opts: &Opts) -> String {
    match open_dump_parts(p, opts) {
        Ok((d, c)) => format!("open:ok {} {}", d, c),
        Err(e) => e,
    }
}

/// Ok((dump text, check status)) or Err(canonical failure)
pub fn open_dump_parts(p: &str, opts: &Opts) -> Result<(String, String), String> {
    match open_db(p, opts) {
        Err(e) => Err(format!("open:{}", e)),
        Ok(db) => {
            let r = guarded(|| {
                let tx = db.tx(false).map_err(|e| err_name(&e))?;
                let tx2: &jammdb::Tx<'static> = unsafe { std::mem::transmute(&tx) };
                let d = dump_tx(tx2);
                drop(tx);
                let c = match db.check() {
                    Ok(()) => "check:ok".to_string(),
                    Err(e) => format!("check:{}", err_name(&e)),
                };
                Ok::<(String, String), String>((d, c))
            });
            match r {
                Ok(Ok(x)) => Ok(x),
                Ok(Err(e)) => Err(format!("open:ok tx:{}", e)),
                Err(p) => Err(format!("open:ok {}", p)),
            }
        }
    }
}

/// builder <pagesize> <num_pages> <path>: does the builder accept the values, and does a small
/// workload run? Runs in this process: an abort (non-unwinding panic) kills it, which the caller sees.
pub fn builder(args: &[String]) -> i32 {
    let ps: u64 = args[0].parse().unwrap();
    let np: usize = args[1].parse().unwrap();
    let path = &args[2];
    let r = guarded(|| jammdb::OpenOptions::new().pagesize(ps).num_pages(np));
    let oo = match r {
        Err(p) => {
            println!("builder:refused:{}", p);
            return 0;
        }
        Ok(o) => o,
    };
    let r = guarded(|| -> Result<String, jammdb::Error> {
        let db = oo.open(path)?;
        {
            let tx = db.tx(true)?;
            let b = tx.get_or_create_bucket("b")?;
            for i in 0..200u32 {
                b.put(format!("key{:05}", i).into_bytes(), vec![(i & 0xff) as u8; (i as usize * 7) % 300])?;
            }
            tx.commit()?;
        }
        {
            let tx = db.tx(true)?;
            let b = tx.get_bucket("b")?;
            for i in (0..200u32).step_by(3) {
                b.delete(format!("key{:05}", i).into_bytes())?;
            }
            tx.commit()?;
        }
        db.check()?;
        let tx = db.tx(false)?;
        let b = tx.get_bucket("b")?;
        let n = b.cursor().count();
        Ok(format!("builder:ok:{}", n))
    });
    match r {
        Ok(Ok(s)) => println!("{}", s),
        Ok(Err(e)) => println!("builder:err:{}", err_name(&e)),
        Err(p) => println!("builder:{}", p),
    }
    0
}

fn now_ns() -> u128 {
    let mut ts = libc::timespec { tv_sec: 0, tv_nsec: 0 };
    unsafe { libc::clock_gettime(libc::CLOCK_MONOTONIC, &mut ts) };
    ts.tv_sec as u128 * 1_000_000_000 + ts.tv_nsec as u128
}

/// proc <path> <marker> <hold_ms> [opts]: open, record what is visible, commit a marker, hold, close.
/// Prints: "proc <marker> opened=<ns> seen=<markers,...> closing=<ns> result=<...>"
pub fn proc_worker(args: &[String]) -> i32 {
    let path = &args[0];
    let marker = args[1].clone();
    let hold: u64 = args[2].parse().unwrap();
    let opts = parse_opts(&args[3..]);
    let start = now_ns();
    let r = guarded(|| -> Result<String, String> {
        let db = open_db(path, &opts)?;
        let opened = now_ns();
        let mut seen = Vec::new();
        {
            let tx = db.tx(true).map_err(|e| err_name(&e))?;
            let b = tx.get_or_create_bucket("markers").map_err(|e| err_name(&e))?;
            for kv in b.kv_pairs() {
                seen.push(String::from_utf8_lossy(kv.key()).to_string());
            }
            b.put(marker.clone().into_bytes(), Vec::new()).map_err(|e| err_name(&e))?;
            tx.commit().map_err(|e| err_name(&e))?;
        }
        // the documented way to share a handle between threads: clone it, use the clone elsewhere, drop the clone;
        // the process must keep holding the database through the original handle
        {
            let c = db.clone();
            let h = std::thread::spawn(move || {
                let n = c.tx(false).ok().and_then(|tx| tx.get_bucket("markers").ok().map(|b| b.kv_pairs().count()));
                drop(c);
                n
            });
            let _ = h.join();
        }
        std::thread::sleep(std::time::Duration::from_millis(hold));
        // still inside: commit a second marker just before closing
        {
            let tx = db.tx(true).map_err(|e| err_name(&e))?;
            let b = tx.get_or_create_bucket("late").map_err(|e| err_name(&e))?;
            b.put(marker.clone().into_bytes(), Vec::new()).map_err(|e| err_name(&e))?;
            tx.commit().map_err(|e| err_name(&e))?;
        }
        let closing = now_ns();
        drop(db);
        Ok(format!("opened={} seen={} closing={} result=ok", opened, seen.join(","), closing))
    });
    let s = match r {
        Ok(Ok(s)) => s,
        Ok(Err(e)) => format!("opened=0 seen= closing=0 result={}", e),
        Err(p) => format!("opened=0 seen= closing=0 result={}", p),
    };
    println!("proc {} start={} {}", marker, start, s);
    0
}

/// grow <path> <pagesize> <num_pages> <value_size> <count> <per_tx>: growth run crossing extension steps.
pub fn grow(args: &[String]) -> i32 {
    let path = &args[0];
    let ps: u64 = args[1].parse().unwrap();
    let np: usize = args[2].parse().unwrap();
    let vs: usize = args[3].parse().unwrap();
    let count: u32 = args[4].parse().unwrap();
    let per: u32 = args[5].parse().unwrap();
    let opts = Opts { pagesize: ps, num_pages: np, strict: args.iter().any(|a| a == "--strict"), populate: false };
    let r = guarded(|| -> Result<String, String> {
        let db = open_db(path, &opts)?;
        let mut lens = Vec::new();
        let mut i = 0u32;
        while i < count {
            let tx = db.tx(true).map_err(|e| err_name(&e))?;
            let b = tx.get_or_create_bucket("g").map_err(|e| err_name(&e))?;
            for _ in 0..per {
                b.put(format!("k{:08}", i).into_bytes(), vec![(i & 0xff) as u8; vs]).map_err(|e| err_name(&e))?;
                i += 1;
            }
            tx.commit().map_err(|e| err_name(&e))?;
            let l = std::fs::metadata(path).map(|m| m.len()).unwrap_or(0);
            if lens.last() != Some(&l) {
                lens.push(l);
            }
        }
        db.check().map_err(|e| err_name(&e))?;
        let tx = db.tx(false).map_err(|e| err_name(&e))?;
        let b = tx.get_bucket("g").map_err(|e| err_name(&e))?;
        let mut n = 0u32;
        let mut okv = true;
        for kv in b.kv_pairs() {
            let want = format!("k{:08}", n);
            if kv.key() != want.as_bytes() || kv.value().len() != vs || kv.value().iter().any(|x| *x != (n & 0xff) as u8) {
                okv = false;
            }
            n += 1;
        }
        Ok(format!("grow:ok n={} contents_ok={} lens={:?}", n, okv, lens))
    });
    match r {
        Ok(Ok(s)) => println!("{}", s),
        Ok(Err(e)) => println!("grow:err:{}", e),
        Err(p) => println!("grow:{}", p),
    }
    0
}

/// The file at `p` has just been recovered from a crash image (it opens and checks). One more commit is made on it; then
/// the header page that commit wrote is torn at 8-byte words in every prefix / suffix combination of the words that
/// changed (a second power loss during the header write). Every such image must open, check, and show the state before
/// or after that commit. Returns "ok:<images>" or "FAIL:<what>".
fn second_crash(p: &str, opts: &Opts, salt: usize) -> String {
    let ps = opts.pagesize as usize;
    let (d1, _) = match open_dump_parts(p, opts) {
        Ok(x) => x,
        Err(e) => return format!("FAIL:reopen:{}", e),
    };
    let img1 = std::fs::read(p).unwrap();
    let r = match open_db(p, opts) {
        Err(e) => Err(format!("open:{}", e)),
        Ok(db) => match guarded(|| -> Result<(), jammdb::Error> {
            let tx = db.tx(true)?;
            let b = tx.get_or_create_bucket("zz-second-crash")?;
            b.put(format!("k{}", salt % 3), format!("{}", salt))?;
            tx.commit()
        }) {
            Ok(Ok(())) => Ok(()),
            Ok(Err(e)) => Err(format!("commit:{}", err_name(&e))),
            Err(pn) => Err(format!("commit:{}", pn)),
        },
    };
    if let Err(e) = r {
        return format!("FAIL:commit-after-recovery:{}", e);
    }
    let img2 = std::fs::read(p).unwrap();
    let d2 = match open_dump_parts(p, opts) {
        Ok((d, c)) if c == "check:ok" => d,
        Ok((_, c)) => return format!("FAIL:after-commit:{}", c),
        Err(e) => return format!("FAIL:after-commit:{}", e),
    };
    if img1.len() < 2 * ps || img2.len() < 2 * ps {
        return "FAIL:short-file".into();
    }
    let changed: Vec<usize> = (0..2).filter(|s| img1[s * ps..(s + 1) * ps] != img2[s * ps..(s + 1) * ps]).collect();
    if changed.len() != 1 {
        return format!("FAIL:commit-wrote-{}-header-pages", changed.len());
    }
    let off = changed[0] * ps;
    let words: Vec<usize> = (0..ps / 8).filter(|w| img1[off + 8 * w..off + 8 * w + 8] != img2[off + 8 * w..off + 8 * w + 8]).collect();
    let mut n = 0;
    for k in 0..=words.len() {
        for suffix in [false, true] {
            // the first k changed words persisted (or: all but the first k)
            let mut img = img2.clone();
            for (j, w) in words.iter().enumerate() {
                let persisted = if suffix { j >= k } else { j < k };
                if !persisted {
                    img[off + 8 * w..off + 8 * w + 8].copy_from_slice(&img1[off + 8 * w..off + 8 * w + 8]);
                }
            }
            std::fs::write(p, &img).unwrap();
            n += 1;
            match open_dump_parts(p, opts) {
                Ok((d, c)) => {
                    if c != "check:ok" {
                        return format!("FAIL:torn-header-of-the-commit-after-recovery:words={}/{}{}:{}", k, words.len(), if suffix { "s" } else { "p" }, c);
                    }
                    if d != d1 && d != d2 {
                        return format!("FAIL:torn-header-of-the-commit-after-recovery:words={}/{}{}:neither-state", k, words.len(), if suffix { "s" } else { "p" });
                    }
                }
                Err(e) => return format!("FAIL:torn-header-of-the-commit-after-recovery:words={}/{}{}:{}", k, words.len(), if suffix { "s" } else { "p" }, e),
            }
        }
    }
    format!("ok:{}", n)
}

/// damage <image> <mutfile> <scratch> [opts]: for every mutation line "<abs_offset> <hexbytes>" copy the
/// image, overwrite the bytes, open it with the library and print "<line no> <open result> <dump hash> <check>"
pub fn damage(args: &[String]) -> i32 {
    let image = std::fs::read(&args[0]).unwrap();
    let muts = std::fs::read_to_string(&args[1]).unwrap();
    let scratch = &args[2];
    let opts = parse_opts(&args[3..]);
    // --second <file>: line numbers (one per line) of the images on which the recovery is continued: one more commit,
    // whose header write is then torn as well (a second crash right after the recovery from the first)
    let second: std::collections::HashSet<usize> = match args.iter().position(|a| a == "--second") {
        Some(k) if k + 1 < args.len() => std::fs::read_to_string(&args[k + 1])
            .unwrap_or_default()
            .lines()
            .filter_map(|l| l.trim().parse().ok())
            .collect(),
        _ => Default::default(),
    };
    for (i, line) in muts.lines().enumerate() {
        let w: Vec<&str> = line.split_whitespace().collect();
        if w.len() < 2 {
            continue;
        }
        let mut img = image.clone();
        // pairs "<abs_offset> <hexbytes>", applied left to right; the image grows if a patch ends beyond it
        for pair in w.chunks(2) {
            if pair.len() < 2 {
                break;
            }
            let off: usize = pair[0].parse().unwrap();
            let bytes = unhex(pair[1]);
            if img.len() < off + bytes.len() {
                img.resize(off + bytes.len(), 0);
            }
            img[off..off + bytes.len()].copy_from_slice(&bytes);
        }
        std::fs::write(scratch, &img).unwrap();
        let mut line = match open_dump_parts(scratch, &opts) {
            Ok((d, c)) => format!("{} ok {:016x} {}", i, crate::run::fnv64(d.as_bytes()), c),
            Err(e) => format!("{} {}", i, e.replace(' ', "_")),
        };
        if second.contains(&i) && line.contains(" ok ") && line.ends_with("check:ok") {
            line.push_str(&format!(" second:{}", second_crash(scratch, &opts, i).replace(' ', "_")));
        }
        println!("{}", line);
    }
    let _ = std::fs::remove_file(scratch);
    0
}
