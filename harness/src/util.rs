use std::cell::RefCell;
use std::panic::{catch_unwind, AssertUnwindSafe};

thread_local! {
    static LAST_PANIC: RefCell<Option<String>> = RefCell::new(None);
}

pub fn install_panic_hook() {
    std::panic::set_hook(Box::new(|info| {
        let msg = if let Some(s) = info.payload().downcast_ref::<&str>() {
            s.to_string()
        } else if let Some(s) = info.payload().downcast_ref::<String>() {
            s.clone()
        } else {
            "non-string panic".to_string()
        };
        let loc = info
            .location()
            .map(|l| format!("{}:{}", l.file(), l.line()))
            .unwrap_or_default();
        LAST_PANIC.with(|p| *p.borrow_mut() = Some(format!("{} @{}", msg, loc)));
    }));
}

/// Run f; a panic becomes Err(canonical panic text).
pub fn guarded<T>(f: impl FnOnce() -> T) -> Result<T, String> {
    match catch_unwind(AssertUnwindSafe(f)) {
        Ok(v) => Ok(v),
        Err(_) => {
            let msg = LAST_PANIC.with(|p| p.borrow_mut().take()).unwrap_or_else(|| "?".into());
            Err(classify_panic(&msg))
        }
    }
}

pub fn classify_panic(msg: &str) -> String {
    // the documented misuse: any use of a handle of a bucket deleted in this transaction
    if msg.contains("deleted bucket") {
        "panic:deleted".to_string()
    } else {
        let clean: String = msg
            .chars()
            .map(|c| if c.is_whitespace() { '_' } else { c })
            .take(160)
            .collect();
        format!("panic:other:{}", clean)
    }
}

pub fn hex(b: &[u8]) -> String {
    if b.is_empty() {
        return "-".to_string();
    }
    let mut s = String::with_capacity(b.len() * 2);
    for x in b {
        s.push_str(&format!("{:02x}", x));
    }
    s
}

/// Token -> bytes. Parts joined by '+' are concatenated; a part is "-" (empty),
/// "r<len>:<seed>" (deterministic pattern), "p<len>:<hexprefix>" (prefix padded with 'x' to len), or hex.
pub fn unhex(t: &str) -> Vec<u8> {
    let mut out = Vec::new();
    for part in t.split('+') {
        out.extend(unhex1(part));
    }
    out
}

fn unhex1(t: &str) -> Vec<u8> {
    if t == "-" || t.is_empty() {
        return Vec::new();
    }
    if let Some(rest) = t.strip_prefix('r') {
        let mut it = rest.split(':');
        let len: usize = it.next().unwrap().parse().unwrap();
        let seed: usize = it.next().unwrap().parse().unwrap();
        return (0..len).map(|i| ((seed + i * 31 + (i >> 8) * 17) & 0xff) as u8).collect();
    }
    if let Some(rest) = t.strip_prefix('p') {
        let mut it = rest.split(':');
        let len: usize = it.next().unwrap().parse().unwrap();
        let mut v = unhex1(it.next().unwrap());
        while v.len() < len {
            v.push(b'x');
        }
        return v;
    }
    let b = t.as_bytes();
    (0..b.len() / 2)
        .map(|i| u8::from_str_radix(std::str::from_utf8(&b[2 * i..2 * i + 2]).unwrap(), 16).unwrap())
        .collect()
}

pub fn err_name(e: &jammdb::Error) -> String {
    use jammdb::Error::*;
    match e {
        BucketExists => "err:BucketExists".into(),
        BucketMissing => "err:BucketMissing".into(),
        KeyValueMissing => "err:KeyValueMissing".into(),
        IncompatibleValue => "err:IncompatibleValue".into(),
        ReadOnlyTx => "err:ReadOnlyTx".into(),
        Io(_) => "err:Io".into(),
        InvalidDB(s) => format!("err:InvalidDB:{}", s.replace(' ', "_")),
        Sync(_) => "err:Sync".into(),
        Alloc(_) => "err:Alloc".into(),
    }
}
