// Hook consumers: an event logger (data events) and the turn-based scheduler used for C04 / C09.
//
// `threads <db> <script>`: runs reader / writer threads against one DB under a scripted schedule.
// Every yield point of the library (hook names listed in the script) parks the calling thread until
// the controller grants it the turn. The controller follows the schedule: "grant thread t" = let t run
// from its current yield point to the next one (or to completion). If t does not arrive anywhere within
// the timeout it is reported as blocked (it keeps running and will park at its next yield point later).
use jammdb::{OpenOptions, DB};
use std::collections::HashMap;
use std::sync::atomic::{AtomicU64, AtomicUsize, Ordering};
use std::sync::{Arc, Condvar, Mutex};
use std::time::{Duration, Instant};

static LOG: Mutex<Vec<String>> = Mutex::new(Vec::new());

pub fn install_logger() {
    jammdb::verif_hooks::set_callback(Some(Arc::new(|name: &str, nums: &[u64], bytes: &[u8]| {
        let ns: Vec<String> = nums.iter().map(|n| n.to_string()).collect();
        let mut l = LOG.lock().unwrap();
        l.push(format!("hook:{}:{}:{}", name, ns.join(","), crate::util::hex(bytes)));
    })));
}

pub fn take_log() -> Vec<String> {
    std::mem::take(&mut *LOG.lock().unwrap())
}

// ---------------------------------------------------------------------------------------------
thread_local! {
    static TID: std::cell::Cell<usize> = std::cell::Cell::new(usize::MAX);
}

#[derive(Clone, Debug, PartialEq)]
enum TState {
    Running,
    Parked(String, Vec<u64>),
    Done,
}

struct Ctl {
    state: Vec<TState>,
    turn: Option<usize>,
    events: Vec<String>, // data events (tx_begin, publish ...) tagged with the thread
}

struct Shared {
    m: Mutex<Ctl>,
    cv: Condvar,
    yields: Vec<String>,
}

static WRITERS_INSIDE: AtomicUsize = AtomicUsize::new(0);
static OVERLAP: AtomicUsize = AtomicUsize::new(0);
static COMMITS_DONE: AtomicU64 = AtomicU64::new(0);

fn park(sh: &Shared, tid: usize, name: &str, nums: &[u64]) {
    let mut g = sh.m.lock().unwrap();
    g.state[tid] = TState::Parked(name.to_string(), nums.to_vec());
    sh.cv.notify_all();
    while g.turn != Some(tid) {
        g = sh.cv.wait(g).unwrap();
    }
    g.turn = None;
    g.state[tid] = TState::Running;
    sh.cv.notify_all();
}

const NKEYS: usize = 16;

fn val(n: u64, big: bool) -> Vec<u8> {
    let mut v = format!("{:08}", n).into_bytes();
    v.resize(if big { 70_000 } else { 300 }, b'.');
    v
}

fn read_state(db: &DB, tx: &jammdb::Tx) -> String {
    // all keys must carry the same generation number
    let _ = db;
    match tx.get_bucket("b") {
        Err(_) => "gen=0".to_string(),
        Ok(b) => {
            let mut gens = Vec::new();
            for kv in b.kv_pairs() {
                let v = kv.value();
                let g = std::str::from_utf8(&v[..8.min(v.len())]).unwrap_or("????????").to_string();
                if !gens.contains(&g) {
                    gens.push(g);
                }
            }
            if gens.len() == 1 {
                format!("gen={}", gens[0].trim_start_matches('0').parse::<u64>().unwrap_or(0))
            } else {
                format!("MIXED{:?}", gens)
            }
        }
    }
}

fn reader_prog(sh: &Shared, tid: usize, db: &DB) -> String {
    let before = COMMITS_DONE.load(Ordering::SeqCst);
    let tx = match db.tx(false) {
        Ok(t) => t,
        Err(e) => return format!("reader begin error {:?}", e),
    };
    let s1 = read_state(db, &tx);
    park(sh, tid, "client:mid", &[]);
    let s2 = read_state(db, &tx);
    park(sh, tid, "client:end", &[]);
    let s3 = read_state(db, &tx);
    drop(tx);
    format!("reader completed_before_begin={} first={} mid={} last={}", before, s1, s2, s3)
}

fn writer_prog(sh: &Shared, tid: usize, db: &DB, big: bool) -> String {
    let _ = (sh, tid);
    let tx = match db.tx(true) {
        Ok(t) => t,
        Err(e) => return format!("writer begin error {:?}", e),
    };
    if WRITERS_INSIDE.fetch_add(1, Ordering::SeqCst) != 0 {
        OVERLAP.fetch_add(1, Ordering::SeqCst);
    }
    let r = (|| -> Result<u64, jammdb::Error> {
        let b = tx.get_or_create_bucket("b")?;
        let cur = match b.get_kv("k00") {
            Some(kv) => std::str::from_utf8(&kv.value()[..8]).unwrap().trim_start_matches('0').parse::<u64>().unwrap_or(0),
            None => 0,
        };
        let n = cur + 1;
        for i in 0..NKEYS {
            b.put(format!("k{:02}", i).into_bytes(), val(n, big && i == 3))?;
        }
        Ok(n)
    })();
    let out = match r {
        Err(e) => {
            WRITERS_INSIDE.fetch_sub(1, Ordering::SeqCst);
            return format!("writer error {:?}", e);
        }
        Ok(n) => n,
    };
    WRITERS_INSIDE.fetch_sub(1, Ordering::SeqCst);
    match tx.commit() {
        Ok(()) => {
            COMMITS_DONE.fetch_add(1, Ordering::SeqCst);
            format!("writer committed gen={}", out)
        }
        Err(e) => format!("writer commit error {:?}", e),
    }
}

pub fn main(args: &[String]) -> i32 {
    // threads <db> <script> [--pagesize N] [--num-pages N] [--timeout-ms N]
    let path = args[0].clone();
    let script = std::fs::read_to_string(&args[1]).unwrap();
    let mut pagesize = 1024u64;
    let mut num_pages = 64usize;
    let mut timeout_ms = 150u64;
    let mut i = 2;
    while i < args.len() {
        match args[i].as_str() {
            "--pagesize" => {
                pagesize = args[i + 1].parse().unwrap();
                i += 1
            }
            "--num-pages" => {
                num_pages = args[i + 1].parse().unwrap();
                i += 1
            }
            "--timeout-ms" => {
                timeout_ms = args[i + 1].parse().unwrap();
                i += 1
            }
            _ => {}
        }
        i += 1;
    }
    // script: "yield <name>..." ; "thread r" | "thread w" | "thread W" (big value: forces growth) ; "init <n>" ; "sched <tid>..."
    let mut yields: Vec<String> = Vec::new();
    let mut progs: Vec<String> = Vec::new();
    let mut sched: Vec<usize> = Vec::new();
    let mut init = 2u64;
    for line in script.lines() {
        let w: Vec<&str> = line.split_whitespace().collect();
        if w.is_empty() {
            continue;
        }
        match w[0] {
            "yield" => yields.extend(w[1..].iter().map(|s| s.to_string())),
            "thread" => progs.push(w[1].to_string()),
            "init" => init = w[1].parse().unwrap(),
            "sched" => sched.extend(w[1..].iter().map(|s| s.parse::<usize>().unwrap())),
            _ => {}
        }
    }
    let db = OpenOptions::new().pagesize(pagesize).num_pages(num_pages).open(&path).unwrap();
    // initial commits (unscheduled): generations 1..=init
    let sh = Arc::new(Shared {
        m: Mutex::new(Ctl { state: vec![TState::Running; progs.len()], turn: None, events: Vec::new() }),
        cv: Condvar::new(),
        yields: yields.clone(),
    });
    for _ in 0..init {
        let dummy = Shared { m: Mutex::new(Ctl { state: vec![], turn: None, events: vec![] }), cv: Condvar::new(), yields: vec![] };
        let r = writer_prog(&dummy, 0, &db, false);
        println!("init {}", r);
    }
    {
        let sh2 = sh.clone();
        jammdb::verif_hooks::set_callback(Some(Arc::new(move |name: &str, nums: &[u64], _b: &[u8]| {
            let tid = TID.with(|t| t.get());
            if tid == usize::MAX {
                return;
            }
            if sh2.yields.iter().any(|y| y == name) {
                park(&sh2, tid, name, nums);
            } else if name == "tx_begin" || name == "publish" || name == "tx_end_ro" {
                let ns: Vec<String> = nums.iter().map(|n| n.to_string()).collect();
                sh2.m.lock().unwrap().events.push(format!("event t={} {} {}", tid, name, ns.join(",")));
            }
        })));
    }
    let results: Arc<Mutex<HashMap<usize, String>>> = Arc::new(Mutex::new(HashMap::new()));
    let db = Arc::new(db);
    let mut handles = Vec::new();
    for (tid, p) in progs.iter().enumerate() {
        let sh2 = sh.clone();
        let db2 = db.clone();
        let res2 = results.clone();
        let p = p.clone();
        handles.push(std::thread::spawn(move || {
            TID.with(|t| t.set(tid));
            park(&sh2, tid, "start", &[]);
            let r = match p.as_str() {
                "r" => reader_prog(&sh2, tid, &db2),
                "w" => writer_prog(&sh2, tid, &db2, false),
                _ => writer_prog(&sh2, tid, &db2, true),
            };
            res2.lock().unwrap().insert(tid, r);
            let mut g = sh2.m.lock().unwrap();
            g.state[tid] = TState::Done;
            sh2.cv.notify_all();
        }));
    }
    // controller
    let wait_settled = |tid: usize, ms: u64| -> TState {
        let deadline = Instant::now() + Duration::from_millis(ms);
        let mut g = sh.m.lock().unwrap();
        loop {
            if g.turn.is_none() {
                if let TState::Parked(..) | TState::Done = g.state[tid] {
                    return g.state[tid].clone();
                }
            }
            let now = Instant::now();
            if now >= deadline {
                return g.state[tid].clone();
            }
            let (g2, _) = sh.cv.wait_timeout(g, deadline - now).unwrap();
            g = g2;
        }
    };
    for t in 0..progs.len() {
        wait_settled(t, 2000);
    }
    let drain_events = |sh: &Shared| {
        let evs = std::mem::take(&mut sh.m.lock().unwrap().events);
        for e in evs {
            println!("{}", e);
        }
    };
    let mut step = 0;
    let mut pending: Vec<usize> = sched.clone();
    // after the script: round-robin until everything is done (bounded)
    let mut extra = 0;
    loop {
        let t = if !pending.is_empty() {
            pending.remove(0)
        } else {
            let g = sh.m.lock().unwrap();
            let alive: Vec<usize> = (0..progs.len()).filter(|i| g.state[*i] != TState::Done).collect();
            drop(g);
            if alive.is_empty() || extra > 400 {
                break;
            }
            extra += 1;
            alive[extra % alive.len()]
        };
        let before = { sh.m.lock().unwrap().state[t].clone() };
        match before {
            TState::Done => {
                println!("step {} grant {} -> already-done", step, t);
            }
            TState::Running => {
                // was blocked inside the library at an earlier grant: see whether it has arrived meanwhile
                let st = wait_settled(t, timeout_ms);
                println!("step {} poll {} -> {}", step, t, fmt_state(&st));
            }
            TState::Parked(..) => {
                {
                    let mut g = sh.m.lock().unwrap();
                    g.turn = Some(t);
                    sh.cv.notify_all();
                }
                // wait until it took the turn and settled again (or timed out = blocked inside the library)
                let deadline = Instant::now() + Duration::from_millis(timeout_ms);
                let mut g = sh.m.lock().unwrap();
                loop {
                    if g.turn.is_none() {
                        match g.state[t] {
                            TState::Parked(..) | TState::Done => break,
                            _ => {}
                        }
                    }
                    let now = Instant::now();
                    if now >= deadline {
                        break;
                    }
                    let (g2, _) = sh.cv.wait_timeout(g, deadline - now).unwrap();
                    g = g2;
                }
                let st = g.state[t].clone();
                drop(g);
                let locks = db.verif_probe_locks();
                println!("step {} grant {} from {} -> {} locks={}", step, t, fmt_state(&before), fmt_state(&st),
                         locks.iter().map(|b| if *b { '1' } else { '0' }).collect::<String>());
            }
        }
        drain_events(&sh);
        step += 1;
    }
    // let everything finish
    {
        let mut g = sh.m.lock().unwrap();
        g.turn = None;
    }
    let all_done = {
        let g = sh.m.lock().unwrap();
        g.state.iter().all(|s| *s == TState::Done)
    };
    if !all_done {
        println!("STUCK states={:?}", sh.m.lock().unwrap().state.iter().map(fmt_state).collect::<Vec<_>>());
        // do not join: threads may be blocked forever
        let res = results.lock().unwrap();
        for (t, r) in res.iter() {
            println!("result {} {}", t, r);
        }
        std::process::exit(0);
    }
    for h in handles {
        let _ = h.join();
    }
    jammdb::verif_hooks::set_callback(None);
    let res = results.lock().unwrap();
    let mut ks: Vec<&usize> = res.keys().collect();
    ks.sort();
    for t in ks {
        println!("result {} {}", t, res[t]);
    }
    println!("overlap {}", OVERLAP.load(Ordering::SeqCst));
    println!("commits {}", COMMITS_DONE.load(Ordering::SeqCst));
    // final state
    let tx = db.tx(false).unwrap();
    println!("final {}", read_state(&db, &tx));
    drop(tx);
    println!("check {}", match db.check() { Ok(()) => "ok".to_string(), Err(e) => format!("{:?}", e) });
    0
}

fn fmt_state(s: &TState) -> String {
    match s {
        TState::Running => "blocked".to_string(),
        TState::Done => "done".to_string(),
        TState::Parked(n, nums) => format!("{}[{}]", n, nums.iter().map(|x| x.to_string()).collect::<Vec<_>>().join(",")),
    }
}
