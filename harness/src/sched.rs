// Hook consumers: an event logger (data events) and, later, the turn-based scheduler.
use std::sync::{Arc, Mutex};

static LOG: Mutex<Vec<String>> = Mutex::new(Vec::new());

pub fn install_logger() {
    jammdb::verif_hooks::set_callback(Some(Arc::new(|name: &str, nums: &[u64], bytes: &[u8]| {
        let ns: Vec<String> = nums.iter().map(|n| n.to_string()).collect();
        let mut l = LOG.lock().unwrap();
        l.push(format!("hook:{}:{}:{}", name, ns.join(","), crate::util::hex(bytes)));
    })));
}

pub fn take_log() -> Vec<String> {
    std::mem::take(&mut *LOG.lock().unwrap())
}

pub fn main(_args: &[String]) -> i32 {
    eprintln!("threads: not built yet");
    2
}
